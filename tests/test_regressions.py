"""
Plain replays (no explorer) of every counterexample that led to a `fix:` commit in /repo, plus the known
findings (marked xfail).  Run:  cd /verif && HOME=$(mktemp -d) /venv/bin/python -m pytest -q tests
"""
import argparse
import io
import contextlib
import json
import os
import tempfile

import pytest

os.environ.setdefault("HOME", tempfile.mkdtemp(prefix="ccverif-tests-"))
import cincoconfig as cc  # noqa: E402
from cincoconfig.encryption import EncryptionError  # noqa: E402


def mk(field, **more):
    s = cc.Schema()
    s.f = field
    for k, v in more.items():
        setattr(s, k, v)
    return s, s()


# ---- C17 ------------------------------------------------------------------------------------
def test_slice_assignment_from_iterator():
    _, cfg = mk(cc.ListField(cc.IntField()))
    cfg.f = [1, 2]
    cfg.f[0:1] = iter(["7"])
    assert list(cfg.f) == [7, 2]
    with pytest.raises(TypeError):
        cfg.f["a"] = 1


def test_dict_setdefault_and_ior():
    _, cfg = mk(cc.DictField(cc.StringField(transform_strip=True), cc.IntField()))
    cfg.f = {}
    assert cfg.f.setdefault("a", "5") == 5
    assert cfg.f.setdefault("zz") is None
    cfg.f |= {" K ": "2"}
    assert cfg.f["K"] == 2 and " K " not in cfg.f
    with pytest.raises(ValueError):
        cfg.f |= {"x": "nope"}


# ---- C05 ------------------------------------------------------------------------------------
def test_net_max_prefix_zero():
    _, cfg = mk(cc.IPv4NetworkField(max_prefix_len=0))
    with pytest.raises(ValueError):
        cfg.f = "10.0.0.0/8"
    cfg.f = "0.0.0.0/0"


def test_nan_rejected_by_bounds():
    _, cfg = mk(cc.FloatField(min=0))
    with pytest.raises(ValueError):
        cfg.f = float("nan")


def test_untyped_list_tuple_becomes_list():
    _, cfg = mk(cc.ListField())
    cfg.f = (1, 2)
    assert type(cfg.f) is list


def test_typed_list_item_encoding_is_undone():
    s, cfg = mk(cc.ListField(cc.BytesField()), d=cc.DictField(cc.BytesField("hex"), cc.ChallengeField("md5")))
    cfg.f = [b"\xff\x00"]
    cfg.d = {b"\xab": "pw"}
    other = s()
    other.loads(cfg.dumps("json"), "json")
    assert list(other.f) == [b"\xff\x00"]
    other.d[b"\xab"].challenge("pw")


def test_string_strip_case_idempotent():
    f = cc.StringField(transform_strip="x", transform_case="lower", required=True)
    _, cfg = mk(f)
    assert f.validate(cfg, "Xa") == "a"
    with pytest.raises(ValueError):
        f.validate(cfg, "X")


def test_secure_field_rejects_non_strings():
    _, cfg = mk(cc.SecureField(method="xor"))
    with pytest.raises(ValueError):
        cfg.f = 5


# ---- C07 ------------------------------------------------------------------------------------
def test_malformed_key_rejected_every_time(tmp_path):
    p = tmp_path / "k"
    p.write_bytes(b"0123456789")
    kf = cc.KeyFile(str(p))
    for _ in range(3):
        with pytest.raises(EncryptionError):
            kf.__enter__()
    with pytest.raises(Exception):
        kf.encrypt("x", method="xor")


# ---- C16 ------------------------------------------------------------------------------------
def test_empty_command_line_overrides_nothing():
    s = cc.Schema()
    s.flag = cc.BoolField(default=True)
    cfg = s()
    args = cc.generate_argparse_parser(s).parse_args([])
    cc.cmdline_args_override(cfg, args)
    assert cfg.flag is True


# ---- C20 ------------------------------------------------------------------------------------
def test_stub_is_silent_and_handles_config_types_and_generics():
    import typing
    inner = cc.Schema()
    inner.x = cc.IntField()
    s = cc.Schema()
    s.t = cc.make_type(inner, "T")

    def meth(cfg, a: typing.List[int]) -> int:
        return 0
    cc.instance_method(s, "m")(meth)
    buf = io.StringIO()
    with contextlib.redirect_stdout(buf):
        stub = cc.generate_stub(s, "Stub")
    assert buf.getvalue() == ""
    compile(stub, "stub", "exec")


# ---- C15 / C03 -------------------------------------------------------------------------------
def _nested():
    item = cc.Schema()
    item.c = cc.IntField(max=9)
    item.inner.e = cc.IntField(max=9)
    item.d = cc.DictField(cc.StringField(), cc.IntField(max=9))
    ts = cc.Schema()
    ts.c = cc.IntField(max=9)
    s = cc.Schema()
    s.items = cc.ListField(item)
    s.t = cc.make_type(ts, "T2")
    s.ts = cc.ListField(s._fields["t"].config_type)
    s.sub.x = cc.IntField()
    return s


def path_of(fn):
    with pytest.raises(cc.ValidationError) as ei:
        fn()
    return ei.value.ref_path


def test_error_paths():
    s = _nested()
    cfg = s()
    assert path_of(lambda: cfg.load_tree({"items": [{"c": 10}]})) == "items[0].c"
    assert path_of(lambda: cfg.load_tree({"items": [{"c": 1}, {"inner": {"e": 10}}]})) == "items[1].inner.e"
    assert path_of(lambda: setattr(cfg.t, "c", 10)) == "t.c"
    cfg.ts = [{"c": 1}, {"c": 1}]
    assert path_of(lambda: setattr(cfg.ts[1], "c", 10)) == "ts[1].c"
    cfg.items = [{"c": 1, "d": {"k": 1}}, {"c": 2, "d": {"k": 1}}]
    assert path_of(lambda: cfg.items[1].d.__setitem__("k", 10)) == "items[1].d[k]"
    assert path_of(lambda: cfg.loads(json.dumps({"sub": "oops"}), "json")) == "sub"
    cfg.load_tree({"items": [{"c": 1}, {"c": 2}]})
    del cfg.items[0]
    assert path_of(lambda: setattr(cfg.items[0], "c", 10)) == "items[0].c"


def test_sub_configuration_created_by_load_uses_parents_key(tmp_path):
    s = cc.Schema()
    s.sub.secret = cc.SecureField(method="aes")
    key = tmp_path / "root.key"
    cfg = cc.Config(s, key_filename=str(key))
    cfg.sub.secret = "hunter2"
    doc = cfg.dumps("json")
    other = cc.Config(s, key_filename=str(key))
    other.loads(doc, "json")
    assert other.sub.secret == "hunter2"
    assert not os.path.exists(cc.Config.DEFAULT_CINCOKEY_FILEPATH)


def test_key_file_reassignment_is_followed(tmp_path):
    s = cc.Schema()
    s.sub.secret = cc.SecureField(method="xor")
    a, b = tmp_path / "a.key", tmp_path / "b.key"
    cfg = cc.Config(s, key_filename=str(a))
    cfg.sub.secret = "hunter2"
    cfg.dumps("json")
    cfg._key_filename = str(b)
    doc = cfg.dumps("json")
    other = cc.Config(s, key_filename=str(b))
    other.loads(doc, "json")
    assert other.sub.secret == "hunter2"


def test_sub_configuration_key_file_survives_reload(tmp_path):
    s = cc.Schema()
    s.sub.secret = cc.SecureField(method="aes")
    cfg = cc.Config(s, key_filename=str(tmp_path / "root.key"))
    cfg.sub._key_filename = str(tmp_path / "sub.key")
    cfg.sub.secret = "hunter2"
    doc = cfg.dumps("json")
    other = cc.Config(s, key_filename=str(tmp_path / "root.key"))
    other.sub._key_filename = str(tmp_path / "sub.key")
    other.loads(doc, "json")
    assert other.sub.secret == "hunter2"


# ---- C10 ------------------------------------------------------------------------------------
def test_mask_reaches_list_items():
    item = cc.Schema()
    item.pw = cc.StringField(sensitive=True)
    s = cc.Schema()
    s.items = cc.ListField(item)
    cfg = s()
    cfg.items = [{"pw": "TOPSECRET"}]
    assert cfg.to_tree(sensitive_mask="*")["items"][0]["pw"] == "*" * 9
    assert b"TOPSECRET" not in cfg.dumps("json", sensitive_mask="XX")


# ---- known findings (not repaired) -----------------------------------------------------------
@pytest.mark.xfail(reason="known finding C05: resolved address is rejected by the same field", strict=True)
def test_hostname_resolve_without_ipv4_is_idempotent(monkeypatch):
    import cincoconfig.fields.net_field as nf
    monkeypatch.setattr(nf.socket, "gethostbyname", lambda name: "10.1.2.3")
    f = cc.HostnameField(allow_ipv4=False, resolve=True)
    _, cfg = mk(f)
    f.validate(cfg, f.validate(cfg, "known.example"))


@pytest.mark.xfail(reason="known finding C14: list fields ignore their environment variable", strict=True)
def test_list_field_environment_variable(monkeypatch):
    monkeypatch.setenv("CCV7TESTL", "x")
    s = cc.Schema()
    s.l = cc.ListField(cc.IntField(), env="CCV7TESTL")
    with pytest.raises(cc.ValidationError):
        s()


# ---- C13: nested typed containers are not shared between configurations ----------------------
def test_nested_typed_containers_not_shared_across_configs():
    s = cc.Schema()
    s.d = cc.DictField(cc.StringField(), cc.ListField(cc.IntField()), default={"d": [1]})
    s.l = cc.ListField(cc.ListField(cc.IntField()), default=[[1]])
    a, b = s(), s()
    a.d = b.d
    a.d["d"].append(7)
    assert list(b.d["d"]) == [1]
    a.l = b.l
    a.l[0].append(7)
    assert list(b.l[0]) == [1]
    a.l = [[5]]
    a.l.extend(b.l)
    a.l[-1].append(9)
    assert list(b.l[0]) == [1]


# ---- C10: the mask reaches configurations nested inside container values ----------------------
def test_mask_reaches_configs_nested_in_containers():
    item = cc.Schema()
    item.name = cc.StringField()
    item.pw = cc.StringField(sensitive=True)
    s = cc.Schema()
    s.d = cc.DictField(cc.StringField(), cc.ListField(item))
    s.ll = cc.ListField(cc.ListField(item))
    cfg = s()
    cfg.d = {"k": [item(name="n", pw="TOPSECRET")]}
    cfg.ll = [[item(name="n", pw="TOPSECRET")]]
    assert "TOPSECRET" not in repr(cfg.to_tree(sensitive_mask="*"))
    assert b"TOPSECRET" not in cfg.dumps("json", sensitive_mask="XX")
    assert "TOPSECRET" in repr(cfg.to_tree())


def test_mask_survives_virtual_field_that_renders_its_own_config():
    item = cc.Schema()
    item.pw = cc.StringField(sensitive=True)
    s = cc.Schema()
    s.fingerprint = cc.VirtualField(lambda cfg: len(cfg.dumps("json")))
    s.d = cc.DictField(cc.StringField(), cc.ListField(item))
    cfg = s()
    cfg.d = {"k": [item(pw="TOPSECRET")]}
    assert "TOPSECRET" not in repr(cfg.to_tree(virtual=True, sensitive_mask="*"))
    assert b"TOPSECRET" not in cfg.dumps("json", virtual=True, sensitive_mask="XX")


def test_declared_field_governs_key_of_older_dynamic_value(tmp_path):
    key = tmp_path / "k.key"
    key.write_bytes(bytes(range(32)))
    s = cc.Schema(dynamic=True)
    cfg = cc.Config(s, key_filename=str(key))
    cfg.late = "LATESECRET"
    cfg.token = "TOKENSECRET"
    s.late = cc.StringField(sensitive=True)
    s.token = cc.SecureField(method="xor")
    assert "LATESECRET" not in repr(cfg.to_tree(sensitive_mask="*"))
    assert b"LATESECRET" not in cfg.dumps("json", sensitive_mask="XX")
    assert b"TOKENSECRET" not in cfg.dumps("json")
    assert cfg.to_tree()["late"] == "LATESECRET"


@pytest.mark.xfail(reason="known finding C15: reference paths of configurations inside nested containers", strict=True)
def test_known_nested_container_paths():
    item = cc.Schema()
    item.c = cc.IntField(max=9)
    s = cc.Schema()
    s.ll = cc.ListField(cc.ListField(item))
    with pytest.raises(cc.ValidationError) as err:
        s().load_tree({"ll": [[{"c": 1}], [{"c": 1}, {"c": 10}]]})
    assert err.value.ref_path == "ll[1][1].c"
