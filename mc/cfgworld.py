"""
Configuration-level worlds shared by C01 / C06 / C12 / C13 (and reused by C02, C15):

* declarative schema specs -> real Schema  (build)
* leaf catalogue with valid / normalising / invalid values per field kind
* whole-state snapshots through the public readers (values at all depths, user-defined marks,
  identity of nested configurations)
* the operation alphabet (all routes) as JSON-able ops, and their executor
* explicit-state BFS over operation histories with canonical-state de-duplication

A spec is {"fields": [[key, fspec], ...], "dynamic": bool}; fspec is a leaf spec of mc.ref.fields, or
{"k": "Schema", "fields": [...], "dynamic": bool}, {"k": "CType", "name": str, "fields": [...]},
{"k": "List", "item": {"k": "Schema"|"CType", ...}}.
"""
import collections
import os
import json

from mc import values as V
from mc.ref import fields as R
from mc.values import F, Y, T, D, OBJ, BA

WITNESS = {"k": "Int", "o": {"default": 1}}


# ---------------------------------------------------------------------------------------------
# leaf catalogue: name -> (spec, valid raw values, invalid raw values)
#   the first valid value is already in normal form; later ones normalise to something else
# ---------------------------------------------------------------------------------------------
def catalogue():
    c = collections.OrderedDict()
    c["str-norm"] = ({"k": "Str", "o": {"transform_strip": True, "transform_case": "lower", "max_len": 5, "default": "dflt"}},
                     ["ab", " CD ", ""], [5, "toolong", ["ab"]])
    c["str-regex-req"] = ({"k": "Str", "o": {"regex": "^a.c$", "required": True, "default": "abc"}}, ["axc", "a-c"], ["abd", "", None, 1.5])
    c["str-choice"] = ({"k": "Str", "o": {"choices": ["x", "y"]}}, ["x", "y"], ["z", True])
    c["int09"] = ({"k": "Int", "o": {"min": 0, "max": 9, "default": 4}}, [1, "2", F(3.0), 0], [10, "x", True, -1, [1]])
    c["int-req"] = ({"k": "Int", "o": {"required": True, "default": 5}}, [7, "8"], [None, "1.5", D()])
    c["float"] = ({"k": "Float", "o": {"min": -1, "max": 1}}, [F(0.5), "1", 0], [2, F("nan"), "x", False])
    c["port"] = ({"k": "Port", "o": {"default": 8080}}, [80, "443"], [0, 70000, "http"])
    c["bool"] = ({"k": "Bool", "o": {"default": False}}, [True, "off", 1, 0], ["maybe", [], D()])
    c["bool-t"] = ({"k": "Bool", "o": {"default": True}}, [False, "yes", F(0.0)], ["maybe"])
    c["int-dflt-nonzero"] = ({"k": "Int", "o": {"default": 7}}, [0, "0", 3], ["x"])
    c["str-dflt"] = ({"k": "Str", "o": {"default": "nonempty"}}, ["", "v"], [5])
    c["ipv4"] = ({"k": "IPv4"}, ["10.0.0.1", "192.168.0.1"], ["10.0.0.256", "01.2.3.4", 5])
    c["net"] = ({"k": "Net", "o": {"min_prefix_len": 8, "max_prefix_len": 24}}, ["10.0.0.0/8", "192.168.1.0/24"],
                ["10.0.0.1/8", "10.0.0.0/25", "0.0.0.0/0", 8])
    c["host"] = ({"k": "Host", "o": {"default": "localhost"}}, ["example.com", "10.0.0.1"], ["a b", 5, "::1", "fe80::1"])      # (an IPv6 literal is neither a host name nor an IPv4 address)
    c["url"] = ({"k": "Url"}, ["http://x", "a:b"], ["nourl", "://x", 1])
    c["bytes"] = ({"k": "Bytes"}, [Y(b"ab"), "cd"], [5, ["ab"], BA(b"ab")])
    c["file"] = ({"k": "File", "o": {"exists": False}}, ["no-such-file.txt", "other-missing"], [".", 5])
    c["challenge"] = ({"k": "Challenge", "o": {"hash_algorithm": "md5"}},
                      ["pw", {"$": "dv", "alg": "md5", "secret": "pw3", "salt_len": 16}, {"$": "dv", "alg": "md5", "secret": "pw4", "salt_len": 37}, "pw2"], [5, ["pw"]])      # (first and last stay tree data)
    c["loglevel"] = ({"k": "LogLevel", "o": {"default": "info"}}, ["debug", " WARNING "], ["trace", 3])
    c["appmode"] = ({"k": "AppMode", "o": {"default": "production", "create_helpers": False}}, ["development", " PRODUCTION "], ["x", 5])
    c["any"] = ({"k": "Any"}, [1, "a", [1, D(("k", 2))]], [])
    c["list-int"] = ({"k": "List", "item": {"k": "Int", "o": {"min": 0, "max": 9}}, "o": {"default": [1]}},
                     [[2], [1, "2"], T(3), [], [0]], [[1, "x"], "12", [10], 5, D()])
    c["list-str-req"] = ({"k": "List", "item": {"k": "Str", "o": {"transform_strip": True}}, "o": {"required": True, "default": ["a"]}},
                         [["b"], [" c "]], [[], None, [5], "ab"])
    c["list-any"] = ({"k": "List"}, [[1, "a"], []], ["notalist", 5])
    c["dict-typed"] = ({"k": "Dict", "key": {"k": "Str", "o": {"transform_strip": True}}, "val": {"k": "Int", "o": {"min": 0, "max": 9}},
                        "o": {"default": D(("d", 1))}}, [D(("k", 1)), D((" K ", "2")), D(), D(("z", 0))], [D(("k", "x")), [1], D(("k", 10)), "k"])
    c["dict-any"] = ({"k": "Dict"}, [D(("k", 1)), D()], [[1], "x", {"$": "mproxy", "v": [["k", 1]]}, {"$": "userdict", "v": [["k", 1]]}])      # a dict field holds dicts, not other mappings
    c["list-int-cd"] = ({"k": "List", "item": {"k": "Int", "o": {"min": 0, "max": 9}}, "o": {"default": [1, 2], "default_callable": True}},
                        [[2], [1, "2"]], [[1, "x"], 5])
    c["dict-typed-cd"] = ({"k": "Dict", "key": {"k": "Str", "o": {"transform_strip": True}}, "val": {"k": "Int", "o": {"min": 0, "max": 9}},
                           "o": {"default": D(("d", 1)), "default_callable": True}}, [D(("k", 1)), D((" K ", "2"))], [D(("k", "x")), [1]])
    c["int-cd"] = ({"k": "Int", "o": {"default": 3, "default_callable": True}}, [1, "2"], ["x"])
    # declared defaults that are valid but not in their field's normal form
    c["loglevel-rawdflt"] = ({"k": "LogLevel", "o": {"default": "INFO"}}, ["debug", " WARNING "], ["trace"])
    c["int-rawdflt"] = ({"k": "Int", "o": {"default": "8080", "min": 0}}, [1, "2"], [-1, "x"])
    c["str-rawdflt"] = ({"k": "Str", "o": {"default": "  padded  ", "transform_strip": True, "transform_case": "upper"}}, ["AB", " cd "], [5])
    c["int-cd-partial"] = ({"k": "Int", "o": {"default": 3, "default_callable": "partial"}}, [1, "2"], ["x"])
    c["list-int-cd-object"] = ({"k": "List", "item": {"k": "Int", "o": {"min": 0, "max": 9}}, "o": {"default": [1, 2], "default_callable": "object"}},
                               [[2], [1, "2"]], [[1, "x"], 5])
    c["dict-typed-cd-partial"] = ({"k": "Dict", "key": {"k": "Str", "o": {"transform_strip": True}}, "val": {"k": "Int", "o": {"min": 0, "max": 9}},
                                  "o": {"default": D(("d", 1)), "default_callable": "partial"}}, [D(("k", 1))], [D(("k", "x"))])
    c["challenge-dflt"] = ({"k": "Challenge", "o": {"hash_algorithm": "sha1", "default": "dfl-secret"}}, ["pw", "pw2"], [5])
    c["secure-aes"] = ({"k": "Secure", "o": {"method": "aes"}}, ["s3cret-ZQ", "p\u00e4ss w\u00f6rd", "0123456789abcdef", "block-aligned-secret-of-32-bytes"], [])
    c["secure-xor"] = ({"k": "Secure", "o": {"method": "xor", "default": "dflt-secret"}}, ["s3cret-ZQ", "", "0123456789abcdefghijABCDEFGHIJ!@#$%^&*()-longer-than-the-key"], [])
    c["secure-best"] = ({"k": "Secure"}, ["s3cret-ZQ", "x" * 40], [])
    c["bytes-hex"] = ({"k": "Bytes", "o": {"encoding": "hex", "default": Y(b"\x00\xff")}}, [Y(b"ab"), Y(bytes(range(7)))], [5])
    c["float-precise"] = ({"k": "Float", "o": {"default": F(0.1 + 0.2)}}, [F(1234567.891), F(1e-7), F(123456789012345680.0)], ["x"])
    c["int-big"] = ({"k": "Int"}, [2 ** 40, -(2 ** 62), 0], ["x"])
    c["str-tricky"] = ({"k": "Str", "o": {"default": " padded "}}, ["true", "1.0", "", "<&>\"'\n\ttab", "\u00e9\U0001F600", "null", "]]>", " ", "caf\udce9.txt", "line one\x85line two", "a\u2028b"], [5])
    c["list-bytes"] = ({"k": "List", "item": {"k": "Bytes"}}, [[Y(b"ab"), Y(b"\xff")], []], [[5], [BA(b"ab")]])
    c["list-challenge"] = ({"k": "List", "item": {"k": "Challenge", "o": {"hash_algorithm": "sha1"}}}, [["pw1", "pw2"]], [[5]])
    c["list-secure"] = ({"k": "List", "item": {"k": "Secure", "o": {"method": "xor"}}}, [["sec-1", "sec-2"], ["a-secret-that-is-longer-than-the-thirty-two-byte-key"]], [])
    c["dict-bytes"] = ({"k": "Dict", "key": {"k": "Str"}, "val": {"k": "Bytes", "o": {"encoding": "hex"}}}, [D(("k", Y(b"ab")))], [D(("k", 5))])
    c["dict-secure"] = ({"k": "Dict", "key": {"k": "Str"}, "val": {"k": "Secure", "o": {"method": "aes"}}}, [D(("k", "sec-d"))], [])
    c["dict-challenge"] = ({"k": "Dict", "key": {"k": "Str"}, "val": {"k": "Challenge"}}, [D(("k", "pw-d"))], [D(("k", 5))])
    c["list-list"] = ({"k": "List", "o": {"default": [[1], []]}}, [[[1, [2]], D(("a", [None]))], [[1.5, "s"]]], ["x"])
    c["str-strip-case-min"] = ({"k": "Str", "o": {"transform_strip": "x", "transform_case": "lower", "min_len": 3, "max_len": 5}},
                               ["abc", "xAbCdx"], ["XabX", "ab", "xXx", 5])
    c["str-max0"] = ({"k": "Str", "o": {"max_len": 0, "min_len": 0, "default": ""}}, [""], ["a", " ", 0])   # 0 is a bound, not "no bound"
    c["str-upper-max"] = ({"k": "Str", "o": {"transform_case": "upper", "max_len": 6}}, ["ABC", "def"], ["stra\u00dfe", "toolong"])
    c["list-int-v"] = ({"k": "List", "item": {"k": "Int", "o": {"min": 0, "max": 9}}, "o": {"validator": "sum<10", "default": [1]}},
                       [[2, 3], ["4"]], [[5, 6], [9, "1"], [10]])
    c["int-even"] = ({"k": "Int", "o": {"validator": "even", "default": 2}}, [4, "6"], [3, "5", "x"])
    c["dict-typed-v"] = ({"k": "Dict", "key": {"k": "Str"}, "val": {"k": "Int"}, "o": {"validator": "distinct-values"}},
                         [D(("a", 1), ("b", 2)), D(("a", "3"))], [D(("a", 1), ("b", "1")), D(("a", "x"))])
    c["challenge-counter"] = ({"k": "Challenge", "o": {"hash_algorithm": "sha1", "default_counter": True}}, ["pw", "pw2"], [5])
    # the same built-in constraints with a pass-through custom validator attached (the normal form must survive it)
    c["port@v"] = ({"k": "Port", "o": {"validator": "identity", "default": 8080}}, [80, "443"], [0, 70000, "http"])
    c["loglevel@v"] = ({"k": "LogLevel", "o": {"validator": "identity", "default": "info"}}, ["debug", " WARNING "], ["trace", 3])
    c["net@v"] = ({"k": "Net", "o": {"validator": "identity", "min_prefix_len": 8}}, ["10.0.0.0/8", "1.2.3.4"], ["10.0.0.1/8", "0.0.0.0/0"])
    c["float@v"] = ({"k": "Float", "o": {"validator": "identity", "max": 10}}, [F(0.5), "1", 3], [11, "x"])
    c["list-int@iv"] = ({"k": "List", "item": {"k": "Int", "o": {"min": 0, "max": 9, "validator": "identity"}}}, [[1, "2"], []], [[10], ["x"]])
    c["dict-typed@vv"] = ({"k": "Dict", "key": {"k": "Str", "o": {"transform_strip": True, "validator": "identity"}},
                           "val": {"k": "Int", "o": {"max": 9, "validator": "identity"}}}, [D((" K ", "2"))], [D(("k", 10))])
    c["str-req-nodflt"] = ({"k": "Str", "o": {"required": True}}, ["v", "w"], [None, "", 5])
    c["dict-byteskey"] = ({"k": "Dict", "key": {"k": "Bytes", "o": {"encoding": "hex"}}, "val": {"k": "Int"}}, [D((Y(b"\xab\xcd"), 1)), D((Y(b"\xa0"), 2), ("k", 3))], [D((5, 1))])
    c["dict-any-empty-dflt"] = ({"k": "Dict", "o": {"default": D()}}, [D(("k", 1))], ["x"])
    c["dict-typed-empty-dflt"] = ({"k": "Dict", "key": {"k": "Str"}, "val": {"k": "Int"}, "o": {"default": D()}}, [D(("k", 1))], [D(("k", "x"))])
    c["list-any-empty-dflt"] = ({"k": "List", "o": {"default": []}}, [[1]], ["x"])
    c["list-int-empty-dflt"] = ({"k": "List", "item": {"k": "Int"}, "o": {"default": []}}, [[1]], [["x"]])
    # typed containers of typed containers
    c["dict-of-lists"] = ({"k": "Dict", "key": {"k": "Str"}, "val": {"k": "List", "item": {"k": "Int", "o": {"min": 0, "max": 9}}},
                           "o": {"default": D(("d", [1]))}}, [D(("k", [2])), D(("k", ["3"]), ("j", []))], [D(("k", [10])), D(("k", 5))])
    c["list-of-lists"] = ({"k": "List", "item": {"k": "List", "item": {"k": "Int", "o": {"min": 0, "max": 9}}}, "o": {"default": [[1]]}},
                          [[[2]], [["3"], []]], [[[10]], [5]])
    # unusual but legal option values
    c["int-fracbounds"] = ({"k": "Int", "o": {"min": 0.5, "max": 9.5, "default": 4}}, [1, "9"], [0, 10, "x"])
    c["int-negfrac"] = ({"k": "Int", "o": {"min": -9.5, "max": -0.5}}, [-1, "-9"], [0, -10])
    c["port-fracmin"] = ({"k": "Port", "o": {"min": 1024.5, "default": 8080}}, [1025, "2000"], [1024, 80])
    c["str-case-spelled"] = ({"k": "Str", "o": {"transform_case": "LOWER", "transform_strip": True, "choices": ["ab", "cd"]}}, ["ab", " CD "], ["ef", 5])
    c["loglevel-case-spelled"] = ({"k": "LogLevel", "o": {"transform_case": "Lower", "default": "info"}}, ["debug", " ERROR "], ["trace"])
    c["str-req-min0"] = ({"k": "Str", "o": {"required": True, "min_len": 0, "transform_strip": True, "default": "v"}}, ["a", " b "], ["", "  ", None])
    # string subclasses with inherited transform options: what is stored is the transformed text
    c["url-norm"] = ({"k": "Url", "o": {"transform_strip": True, "transform_case": "lower", "max_len": 12}}, ["http://x", " HTTP://Y "], ["nourl", " http://toolong.example ", 5])
    c["host-norm"] = ({"k": "Host", "o": {"transform_strip": True, "transform_case": "lower", "default": "localhost"}}, ["example.com", " EXAMPLE.org "], ["a b", 5])
    c["ipv4-strip"] = ({"k": "IPv4", "o": {"transform_strip": True}}, ["10.0.0.1", " 192.168.0.1 "], ["10.0.0.256", 5])
    c["str-regex-unanchored"] = ({"k": "Str", "o": {"regex": "a.c", "default": "abc"}}, ["abc", "axcde"], ["xabc", "9 abc", "X\nabc", 5])
    c["file-new-in-dir"] = ({"k": "File", "o": {"exists": False, "startdir": "@FW"}}, ["/nonexistent-dir-zq/abs", "fresh.log"], ["taken.log", "adir", 5])
    c["file-in-dir"] = ({"k": "File", "o": {"exists": "file", "startdir": "@FW"}}, ["taken.log"], ["fresh.log", "adir"])
    c["file-in-homedir"] = ({"k": "File", "o": {"exists": "file", "startdir": "@FW~"}}, ["taken.log"], ["fresh.log", "adir"])      # the same directory, named home-relative
    c["dir-in-dir"] = ({"k": "File", "o": {"exists": "dir", "startdir": "@FW"}}, ["adir"], ["fresh.log", "taken.log"])
    c["dict-any-dflt"] = ({"k": "Dict", "o": {"default": D(("d", 1))}}, [D(("k", 1))], ["x"])
    c["list-any-dflt"] = ({"k": "List", "o": {"default": [1, [2]]}}, [[3]], ["x"])
    c["list-anyfield-dflt"] = ({"k": "List", "item": {"k": "Any"}, "o": {"default": [1, [2]]}}, [[3]], ["x"])      # the item field is an explicit AnyField
    c["list-anyfield-empty-dflt"] = ({"k": "List", "item": {"k": "Any"}, "o": {"default": []}}, [[3]], ["x"])
    return c


def core_leaves():
    """the leaves that get the deepest exploration in the thorough tiers"""
    return ["str-norm", "int09", "bool", "list-int", "dict-typed", "int-req", "str-regex-req", "challenge", "bytes", "any", "list-int-cd", "dict-typed-cd"]


def option_leaves():
    return ["int-fracbounds", "int-negfrac", "port-fracmin", "str-case-spelled", "loglevel-case-spelled", "str-req-min0", "str-regex-unanchored", "url-norm", "host-norm", "ipv4-strip",
            "file-new-in-dir", "file-in-dir", "dir-in-dir", "file-in-homedir"]


def quick_leaves():
    return ["str-norm", "str-regex-req", "int09", "int-req", "bool", "net", "bytes", "challenge", "list-int", "list-str-req",
            "dict-typed", "any", "float", "host", "str-req-nodflt", "str-strip-case-min", "str-upper-max", "str-max0", "list-int-v", "int-even", "dict-typed-v", "bool-t", "int-dflt-nonzero", "str-dflt", "port@v", "loglevel@v", "net@v", "float@v", "list-int@iv", "dict-typed@vv"]


# ---------------------------------------------------------------------------------------------
# shapes
# ---------------------------------------------------------------------------------------------
LOOSE_KINDS = ("Str", "Int", "Float", "Port", "IPv4", "Net", "Host", "Url", "LogLevel", "AppMode", "File")


def shape(name, leaf):
    """-> schema spec with the catalogue leaf `leaf` at the positions the shape defines"""
    if name.endswith("+off"):
        # the same shape with a feature flag that is off at the root and in every nested schema: whole-configuration
        # validation is skipped there, everything judged at assignment time must still hold
        spec = shape(name[:-4], leaf)
        flag = ["ff", {"k": "Flag", "o": {"default": False}}]

        def add(sp):
            sp["fields"] = [list(flag)] + [[k, (add(dict(f)) if f["k"] in ("Schema", "CType") else f)] for k, f in sp["fields"]]
            return sp
        return add(spec)
    if name.endswith("+late"):
        # the same shape, but every field of the leaf kind joins the schema only after the schema has been used
        # (a configuration built, rendered, loaded; fields enumerated; parser and stub generated)
        spec = shape(name[:-5], leaf)
        spec["late_leaf"] = catalogue()[leaf][0]
        return spec
    if name.endswith("+env"):
        # the same shape under a schema with an environment prefix; every derived variable is exported *empty*,
        # which must behave exactly as if no binding existed
        spec = shape(name[:-4], leaf)
        spec["env"] = "VPENV"
        return spec
    spec = _shape(name, leaf)
    L = catalogue()[leaf][0]
    if L["k"] in LOOSE_KINDS and name in ("flat", "nested"):
        # a second field of the same class with no constraints of its own: values it accepts first must still be
        # judged by the constrained field on their own (nothing may be remembered per class or per text)
        loose = {"k": L["k"], "o": {"create_helpers": False} if L["k"] == "AppMode" else {}}
        if L["k"] == "Port":
            loose["o"] = {"min": -10 ** 9, "max": 10 ** 9}
        spec["fields"].insert(len(spec["fields"]) - 1, ["loose", loose])
    return spec


def _shape(name, leaf):
    L = catalogue()[leaf][0]
    w = ["w", WITNESS]
    if name == "flat":
        return {"fields": [["a", L], w]}
    if name == "nested":
        return {"fields": [["a", L], ["sub", {"k": "Schema", "fields": [["c", L], ["deep", {"k": "Schema", "fields": [["e", L]]}], ["w2", WITNESS]]}], w]}
    if name == "nested-v":
        # like "nested", with schema validators that reject one particular (valid) value of c / e:
        # a rejection that only happens in the whole-configuration validation phase of a load
        vals = catalogue()[leaf][1]
        rej = vals[1] if len(vals) > 1 else vals[0]
        return {"fields": [["a", L], ["sub", {"k": "Schema", "reject": ["c", rej], "fields": [
            ["c", L], ["deep", {"k": "Schema", "reject": ["e", rej], "fields": [["e", L]]}], ["w2", WITNESS]]}], w]}
    if name == "cfglist-v":
        vals = catalogue()[leaf][1]
        rej = vals[1] if len(vals) > 1 else vals[0]
        item = {"k": "Schema", "reject": ["c", rej], "fields": [["c", L], ["r", {"k": "Str", "o": {"required": True}}]]}
        ct = {"k": "CType", "name": "CTV", "reject": ["c", rej], "fields": [["c", L]]}
        return {"fields": [["items", {"k": "List", "item": item}], ["t", ct], ["ts", {"k": "List", "item": ct}], w]}
    if name == "cfglist2-v":
        # two lists per item type: a configuration held by one list can be offered to the other
        base = _shape("cfglist-v", leaf)
        f = dict(base["fields"])
        base["fields"] = base["fields"][:-1] + [["items2", {"k": "List", "item": f["items"]["item"]}], ["ts2", {"k": "List", "item": f["ts"]["item"]}], w]
        return base
    if name == "cfglist":
        item = {"k": "Schema", "fields": [["c", L], ["r", {"k": "Str", "o": {"required": True}}], ["inner", {"k": "Schema", "fields": [["e", L]]}]]}
        ct = {"k": "CType", "name": "CT", "fields": [["c", L]]}
        return {"fields": [["items", {"k": "List", "item": item}], ["t", ct], ["ts", {"k": "List", "item": ct}], w]}
    if name == "reuse":      # one sub-schema / config type reused as the item type of several lists
        item = {"k": "Schema", "name": "ItemS", "fields": [["c", L], ["r", {"k": "Str", "o": {"required": True}}]]}
        ct = {"k": "CType", "name": "CT", "fields": [["c", L]]}
        return {"fields": [["items", {"k": "List", "item": item}], ["l2", {"k": "List", "item": item}], ["t", ct], ["ts", {"k": "List", "item": ct}],
                           ["ts2", {"k": "List", "item": ct}], w]}
    if name == "dynamic":
        return {"fields": [["dyn", {"k": "Schema", "dynamic": True, "fields": [["x", L]]}], w], "dynamic": True}
    raise ValueError(name)


SHAPES = ["flat", "nested", "cfglist", "dynamic"]


class Built:
    """a real Schema built from a spec, with the config types it needed"""

    def __init__(self, spec):
        import cincoconfig as cc
        self.spec = spec
        self.ctypes = {}
        self.named = {}
        self.issued = {}
        self.counters = collections.Counter()
        self.postponed = []
        self.late_leaf = spec.get("late_leaf")
        self.schema = self._schema(spec, cc)
        if self.late_leaf is not None:
            self._use_then_grow(cc)
        if spec.get("env"):
            for name in env_names(self.schema):
                os.environ[name] = ""

    def _schema(self, spec, cc, into=None):
        if into is None and spec.get("name") and spec["name"] in self.named:
            return self.named[spec["name"]]
        s = into if into is not None else cc.Schema(dynamic=bool(spec.get("dynamic")), **({"env": spec["env"]} if spec.get("env") else {}))
        if into is None and spec.get("name"):
            self.named[spec["name"]] = s
        if spec.get("reject"):
            key, vspec = spec["reject"]
            fspec = dict(spec["fields"])[key]
            fs = {k: v for k, v in fspec.items()}
            fs["o"] = {a: b for a, b in fspec.get("o", {}).items() if a not in ("default", "default_callable", "required")}
            norm = R.ref_validate(fs, V.dec(vspec))
            bad = V.plain(norm[1]) if norm[0] == "ok" and not isinstance(norm[1], (R.DigestOf, R.Same)) else None

            def _validator(cfg, key=key, bad=bad):
                if bad is not None and V.plain(getattr(cfg, key)) == bad:
                    raise ValueError("the %s validator rejects this value" % key)
            cc.validator(s)(_validator)
        for key, f in spec["fields"]:
            k = f["k"]
            if k == "Schema":
                sub = cc.Schema(dynamic=bool(f.get("dynamic")))
                setattr(s, key, sub)
                self._schema(f, cc, into=sub)
            elif k == "CType":
                setattr(s, key, self._ctype(f, cc))
            elif k == "List" and isinstance(f.get("item"), dict) and f["item"]["k"] in ("Schema", "CType"):
                it = f["item"]
                item = self._ctype(it, cc) if it["k"] == "CType" else self._schema(it, cc)
                setattr(s, key, cc.ListField(item, **{a: V.dec(b) for a, b in f.get("o", {}).items()}))
            elif self.late_leaf is not None and f == self.late_leaf:
                self.postponed.append((s, key, f))
            else:
                setattr(s, key, self._leaf(f))
        return s

    def _use_then_grow(self, cc):
        import contextlib, io
        early = self.schema()
        early.to_tree()
        early.to_tree(virtual=True, sensitive_mask="*")
        try:
            early.loads(early.dumps("json"), "json")
        except Exception:  # noqa
            pass
        try:
            early.validate(collect_errors=True)
        except Exception:  # noqa
            pass
        cc.get_all_fields(self.schema)
        with contextlib.redirect_stdout(io.StringIO()):
            try:
                cc.generate_argparse_parser(self.schema, add_help=False)
                cc.generate_stub(self.schema, "Early")
            except Exception:  # noqa
                pass
        for n, (sch, key, f) in enumerate(self.postponed):
            if n % 2:
                sch[key] = self._leaf(f)          # item syntax
            else:
                setattr(sch, key, self._leaf(f))
        self.postponed = []

    def _leaf(self, f):
        import cincoconfig as cc
        if f["k"] == "Virtual":
            return cc.VirtualField(lambda cfg: 42)
        if f["k"] == "Method":
            return cc.InstanceMethodField(lambda cfg, n=1: n + 1)
        o = f.get("o", {})
        if o.get("default_counter"):
            ff = {"k": f["k"], "o": {a: b for a, b in o.items() if a not in ("default", "default_counter")}}
            issued = self.issued.setdefault(json.dumps(f, sort_keys=True), [])

            def counting(issued=issued):
                issued.append("issued-secret-%d" % (len(issued) + 1))
                return issued[-1]
            fld = R.mk_field(ff)
            fld._default = counting
            return fld
        if o.get("default_callable"):
            ff = {"k": f["k"], "o": {a: b for a, b in o.items() if a not in ("default", "default_callable")}}
            for extra in ("item", "key", "val"):
                if extra in f:
                    ff[extra] = f[extra]
            dv = o["default"]
            name = json.dumps(f, sort_keys=True)

            def factory(dv=dv, name=name):
                self.counters[name] += 1
                return V.dec(dv)
            import cincoconfig as cc  # noqa
            fld = R.mk_field(ff)
            how = o["default_callable"]
            if how == "partial":          # callables that are neither functions nor classes
                import functools
                fld._default = functools.partial(factory)
            elif how == "object":
                class Factory:
                    def __call__(self_inner):
                        return factory()
                fld._default = Factory()
            else:
                fld._default = factory
            return fld
        return R.mk_field(f)

    def _ctype(self, f, cc):
        if f["name"] not in self.ctypes:
            inner = self._schema(f, cc)
            self.ctypes[f["name"]] = cc.make_type(inner, f["name"], key_filename=f.get("key_filename"))
        return self.ctypes[f["name"]]


def env_names(schema):
    """every environment variable name a field of the schema tree is bound to"""
    import cincoconfig as cc
    out = []

    def walk(sch):
        for key, field in sch._fields.items():
            if isinstance(field, cc.Schema):
                walk(field)
                continue
            if isinstance(getattr(field, "env", None), str) and field.env:
                out.append(field.env)
            inner = getattr(field, "field", None)
            if isinstance(inner, cc.Schema):
                walk(inner)
            elif isinstance(inner, type) and hasattr(inner, "__schema__"):
                walk(inner.__schema__)
            ct = getattr(field, "config_type", None)
            if ct is not None:
                walk(ct.__schema__)
    walk(schema)
    return out


def schema_snap(schema):
    """deep snapshot of a schema: field set, every field's options and declared default"""
    import cincoconfig as cc

    def fsnap(field, depth=0):
        items = [("type", type(field).__name__)]
        for k, v in sorted(vars(field).items()):
            if k == "_schema":
                continue
            if isinstance(v, cc.Schema):
                items.append((k, "schema:" + repr(sorted(v._fields))))
            elif isinstance(v, (cc.Field, cc.core.BaseField)) and depth < 3:
                items.append((k, fsnap(v, depth + 1)))
            elif callable(v) and not isinstance(v, type):
                items.append((k, "callable"))
            else:
                try:
                    items.append((k, repr(V.canon(v))))
                except Exception:  # noqa
                    items.append((k, repr(v)))
        return tuple(items)
    out = []

    def walk(sch, pre):
        out.append((pre + "<schema>", tuple(sorted(sch._fields)), bool(sch._dynamic), len(sch._validators)))
        for key, field in sch._fields.items():
            if isinstance(field, cc.Schema):
                walk(field, pre + key + ".")
            else:
                out.append((pre + key, fsnap(field)))
                inner = getattr(field, "field", None)
                if isinstance(inner, cc.Schema):
                    walk(inner, pre + key + "[].")
                elif isinstance(inner, type) and hasattr(inner, "__schema__"):
                    walk(inner.__schema__, pre + key + "[]<type>.")
                ct = getattr(field, "config_type", None)
                if ct is not None:
                    walk(ct.__schema__, pre + key + "<type>.")
    walk(schema, "")
    return tuple(out)


def subspec(spec, path):
    """field spec at dotted path ('items[]' steps into a list's item spec)"""
    cur = spec
    parts = path.split(".") if path else []
    f = None
    for p in parts:
        f = dict(cur["fields"]).get(p)
        if f is None:
            return None
        if f["k"] in ("Schema", "CType"):
            cur = f
        elif f["k"] == "List" and isinstance(f.get("item"), dict) and f["item"]["k"] in ("Schema", "CType"):
            cur = f["item"]
    return f


def leaf_paths(spec, pre=""):
    """[(path, fspec)] for every declared non-config field, depth first in declaration order"""
    out = []
    for key, f in spec["fields"]:
        if f["k"] in ("Schema", "CType"):
            out += leaf_paths(f, pre + key + ".")
        else:
            out.append((pre + key, f))
    return out


def chained(cfg, path):
    obj = cfg
    for part in path.split("."):
        obj = getattr(obj, part)
    return obj


# ---------------------------------------------------------------------------------------------
# snapshots (through the public readers only)
# ---------------------------------------------------------------------------------------------
def snapshot(cfg, with_ids=False, abstract=False):
    """canonical, hashable whole-state snapshot: (key, kind, value, user-defined?) at every depth"""
    import cincoconfig as cc
    items = []
    for key, value in cfg:
        try:
            defined = cc.is_value_defined(cfg, key)
        except Exception as exc:  # noqa
            defined = "ERR:" + type(exc).__name__
        if isinstance(value, cc.Config):
            items.append((key, "cfg", snapshot(value, with_ids, abstract), defined) + ((id(value),) if with_ids else ()))
        elif isinstance(value, list) and value and all(isinstance(x, cc.Config) for x in value):
            items.append((key, "cfgs:" + type(value).__name__, tuple(snapshot(x, with_ids, abstract) for x in value), defined)
                         + ((tuple(id(x) for x in value),) if with_ids else ()))
        else:
            items.append((key, "val", _abstract_digests(V.canon(value)) if abstract else V.canon(value), defined))
    return tuple(items)


def _abstract_digests(c):
    """salted digests carry entropy: keep only (algorithm, salt length, digest length)"""
    if isinstance(c, tuple):
        if c and c[0] == "dg":
            return ("dg", c[3], len(c[1]), len(c[2]))
        return tuple(_abstract_digests(x) for x in c)
    return c


def diff_paths(a, b, pre=""):
    """paths at which two snapshots differ (value or mark); a structural change reports the prefix"""
    da = {x[0]: x for x in a}
    db = {x[0]: x for x in b}
    out = []
    for k in list(da) + [k for k in db if k not in da]:
        if k not in da or k not in db:
            out.append(pre + k)
            continue
        x, y = da[k], db[k]
        if x[1] == "cfg" and y[1] == "cfg":
            if x[3] != y[3]:
                out.append(pre + k + "#mark")
            out += diff_paths(x[2], y[2], pre + k + ".")
        elif x != y:
            if x[:3] == y[:3] and len(x) > 3 and x[3] != y[3]:
                out.append(pre + k + "#mark")
            else:
                out.append(pre + k)
    return out


# ---------------------------------------------------------------------------------------------
# C01 state invariant: every readable value is unset or a normal form of its field
# ---------------------------------------------------------------------------------------------
def invalid_values(cfg, spec, pre=""):
    """-> list of (path, value, why) for values that violate their field's declared constraints"""
    import cincoconfig as cc
    out = []
    for key, f in spec["fields"]:
        path = pre + key
        try:
            value = getattr(cfg, key)
        except Exception as exc:  # noqa
            out.append((path, None, "reading raised %r" % (exc,)))
            continue
        k = f["k"]
        if k in ("Virtual", "Method"):
            continue
        if k in ("Schema", "CType"):
            if isinstance(value, cc.Config):
                out += invalid_values(value, f, path + ".")
            else:
                out.append((path, value, "sub-configuration replaced by %s" % type(value).__name__))
            continue
        if k == "List" and isinstance(f.get("item"), dict) and f["item"]["k"] in ("Schema", "CType"):
            if value is None:
                continue
            if not isinstance(value, list):
                out.append((path, value, "not a list"))
                continue
            for i, item in enumerate(value):
                if not isinstance(item, cc.Config):
                    out.append(("%s[%d]" % (path, i), item, "list item is not a configuration"))
                else:
                    out += invalid_values(item, f["item"], "%s[%d]." % (path, i))
            continue
        if value is None:
            continue
        fs = dict(f)
        fs["o"] = {a: b for a, b in f.get("o", {}).items() if a not in ("default", "default_callable", "required")}
        if k in ("List", "Dict"):
            fs["o"].pop("validator", None)   # a whole-container validator is a set-time check; in-place mutation validates items only
        # "required" is judged when a load/validation returns (C11), not on every intermediate state
        r = R.ref_validate(fs, value)
        if r[0] == "rej":
            out.append((path, value, "violates its field's constraints (%s)" % r[1]))
        elif r[0] == "ok" and not R.matches(value, r[1]):
            out.append((path, value, "is not in normal form (normal form %s)" % V.show(r[1], 40)))
    return out


# ---------------------------------------------------------------------------------------------
# operations
# ---------------------------------------------------------------------------------------------
def tree_for(path, value):
    """nested tree {a: {b: value}} for dotted path"""
    parts = path.split(".")
    t = value
    for p in reversed(parts):
        t = {"$": "d", "v": [[p, t]]}
    return t


def apply_op(w, op):
    """execute one operation on world w (w.cfg, w.built); returns the library's return value"""
    import cincoconfig as cc
    name = op[0]
    cfg = w.cfg
    if name == "set":          # attribute on the owning sub-configuration
        path, v = op[1], w.dec(op[2])
        owner = chained(cfg, path.rsplit(".", 1)[0]) if "." in path else cfg
        setattr(owner, path.rsplit(".", 1)[-1], v)
        return None
    if name == "setitem":      # dotted path from the root
        cfg[op[1]] = w.dec(op[2])
        return None
    if name == "load_tree":
        if len(op) > 2 and op[2] == "nv":     # the whole-configuration pass is skipped; every field is still held to its own checks
            cfg.load_tree(w.dec(op[1]), validate=False)
        else:
            cfg.load_tree(w.dec(op[1]))
        return None
    if name == "loads":
        tree = w.dec(op[2])
        cfg.loads(json.dumps(tree).encode() if op[1] == "json" else encode_doc(op[1], tree), op[1])
        return None
    if name == "reset":
        cc.reset_value(cfg, op[1])
        return None
    if name == "cmdline":
        import contextlib, io
        parser = cc.generate_argparse_parser(w.built.schema, add_help=False)
        try:
            with contextlib.redirect_stderr(io.StringIO()):
                ns = parser.parse_args(op[1])
        except SystemExit:
            raise LookupError("option not offered by the generated parser")
        cc.cmdline_args_override(cfg, ns)
        return None
    if name == "setcfg-nv":    # assign a Config instance that was filled without validation (it may violate its own schema validator)
        path = op[1]
        owner = chained(cfg, path.rsplit(".", 1)[0]) if "." in path else cfg
        key = path.rsplit(".", 1)[-1]
        field = owner._schema._get_field(key)
        sub = field()
        sub.load_tree(w.dec(op[2]), validate=False)
        setattr(owner, key, sub)
        return None
    if name == "setcfg":       # assign a Config instance built from the sub-schema, with a tree loaded
        path = op[1]
        owner = chained(cfg, path.rsplit(".", 1)[0]) if "." in path else cfg
        key = path.rsplit(".", 1)[-1]
        field = owner._schema._get_field(key)
        sub = field() if not isinstance(field, cc.Schema) else field()
        sub.load_tree(w.dec(op[2]))
        setattr(owner, key, sub)
        return None
    if name == "mut":          # in-place mutation of a list/dict value reached by path
        target = chained(cfg, op[1])
        return mutate(w, target, op[2], op[3:])
    if name == "mutin":        # in-place mutation of a container held inside a typed container: cfg.d["k"].append(v)
        target = chained(cfg, op[1])[op[2]]
        return mutate(w, target, op[3], op[4:])
    if name == "rset":           # the configuration is rendered (tree and document) first, then the attribute is assigned
        cfg.to_tree()
        cfg.dumps("json")
        path, v = op[1], w.dec(op[2])
        owner = chained(cfg, path.rsplit(".", 1)[0]) if "." in path else cfg
        setattr(owner, path.rsplit(".", 1)[-1], v)
        return None
    if name == "rawset":         # attribute assignment with the name taken as it is (no path splitting)
        setattr(cfg, op[1], w.dec(op[2]))
        return None
    if name == "selfset":        # the value read from the field is assigned back to it
        path = op[1]
        owner = chained(cfg, path.rsplit(".", 1)[0]) if "." in path else cfg
        key = path.rsplit(".", 1)[-1]
        setattr(owner, key, getattr(owner, key))
        return None
    if name == "augset":         # augmented assignment on the attribute: read, extend in place, assign the result back
        path, more = op[1], w.dec(op[2])
        owner = chained(cfg, path.rsplit(".", 1)[0]) if "." in path else cfg
        key = path.rsplit(".", 1)[-1]
        cur = getattr(owner, key)
        if isinstance(cur, dict):
            cur |= more
        else:
            cur += more
        setattr(owner, key, cur)
        return None
    if name == "validate":       # an explicit whole-configuration validation pass
        cfg.validate()
        return None
    if name == "render":         # serialisation: must be free of side effects
        cfg.to_tree()
        cfg.to_tree(virtual=True, sensitive_mask="*")
        return cfg.dumps(op[1])
    if name == "from-sibling":   # assign the sibling configuration's (typed) value to this configuration
        path = op[1]
        owner = chained(cfg, path.rsplit(".", 1)[0]) if "." in path else cfg
        setattr(owner, path.rsplit(".", 1)[-1], chained(w.sibling, path))
        return None
    if name == "itemset":      # attribute of a configuration held in a list: items[i].c = v
        lst = chained(cfg, op[1])
        owner = lst[op[2]]
        parts = op[3].split(".")
        for part in parts[:-1]:
            owner = getattr(owner, part)
        setattr(owner, parts[-1], w.dec(op[4]))
        return None
    raise ValueError("unknown op %r" % (op,))


def mutate(w, target, method, args):
    a = [w.dec(x) for x in args]
    if method == "append":
        return target.append(a[0])
    if method == "insert":
        return target.insert(a[0], a[1])
    if method == "extend":
        return target.extend(a[0])
    if method == "setitem":
        target[a[0]] = a[1]
        return None
    if method == "setslice":
        target[slice(*a[0])] = a[1]
        return None
    if method == "iadd":
        target += a[0]
        return None
    if method == "update":
        return target.update(a[0])
    if method == "updatekw":
        return target.update(**a[0])
    if method == "setdefault":
        return target.setdefault(a[0], a[1])
    if method == "ior":
        target |= a[0]
        return None
    if method == "pop":
        return target.pop()
    if method == "clear":
        return target.clear()
    if method == "delitem":
        del target[a[0]]
        return None
    raise ValueError(method)


def encode_doc(fmt, tree):
    import cincoconfig as cc
    return cc.ConfigFormat.get(fmt).dumps(None, tree)


SINGLE_ELEMENT_MUTATORS = ("append", "insert", "setitem", "setdefault")


class World:
    def __init__(self, spec, init=None, built=None, sibling=False):
        self.spec = spec
        self.built = built or Built(spec)
        self.init = init
        self.sibling = self.built.schema() if sibling else None     # a configuration of the same schema, built first
        kw = {k: self.dec(v) for k, v in (init or {}).items()}
        self.cfg = self.built.schema(**kw)

    def dec(self, vspec):
        return V.dec(vspec, self._resolve)

    def _resolve(self, s):
        import cincoconfig as cc
        if s["$"] == "foreign-list":
            # a proxy of *another* field whose items are valid there but not (or not normal) here
            sch = cc.Schema()
            sch.x = cc.ListField(cc.AnyField() if s.get("any") else cc.StringField())
            sch.y = cc.ListField(cc.IntField())
            c = sch()
            c.y = [V.dec(x) for x in s["items"]] if all(isinstance(V.dec(x), int) for x in s["items"]) else []
            if not all(isinstance(V.dec(x), int) for x in s["items"]):
                sch2 = cc.Schema(); sch2.y = cc.ListField(cc.StringField()); c = sch2(); c.y = [V.dec(x) for x in s["items"]]
            return c.y
        if s["$"] == "sibling-value":
            return chained(self.sibling, s["path"])
        if s["$"] == "item-of":
            return chained(self.cfg, s["path"])[s["index"]]
        if s["$"] == "foreign-list-plus":
            base = self._resolve({"$": "foreign-list", "items": s["items"]})
            return base + [V.dec(x) for x in s["plus"]]      # the concatenation of a foreign proxy: still a proxy of that field
        if s["$"] == "foreign-dict":
            sch = cc.Schema()
            items = V.dec(s["items"])
            allint = all(isinstance(x, int) and not isinstance(x, bool) for x in items.values())
            sch.y = cc.DictField(cc.StringField(), cc.IntField() if allint else cc.AnyField())
            c = sch()
            c.y = items
            return c.y
        raise ValueError(s)


def ops_for(spec, leafname, tier="quick"):
    """the operation alphabet for one shape instance: every route x {valid, normalising, invalid}"""
    spec_l, valid, invalid = catalogue()[leafname]
    ops = []
    kind = spec_l["k"]
    lps = [(p, f) for p, f in leaf_paths(spec) if f is spec_l or f == spec_l]
    for i, (path, f) in enumerate(lps):
        vals = [("valid", v) for v in valid] + [("invalid", v) for v in invalid]
        for j, (cls, v) in enumerate(vals):
            route = "set" if (i + j) % 2 == 0 else "setitem"
            ops.append([route, path, v])
            if tier == "thorough":
                ops.append(["setitem" if route == "set" else "set", path, v])
        # tree / document routes (bytes are not tree data: only JSON-like values)
        for cls, v in vals:
            if not _jsonlike(v):
                continue
            ops.append(["load_tree", tree_for(path, v)])
        for cls, v in vals[:2] + vals[len(valid):]:
            if _jsonlike(v):
                ops.append(["load_tree", tree_for(path, v), "nv"])
        for cls, v in vals[:1] + vals[len(valid):len(valid) + 1]:
            if _jsonlike(v):
                ops.append(["loads", "json", tree_for(path, v)])
        ops.append(["reset", path])
        if "[" not in path:
            ops.append(["selfset", path])
            if kind == "List" and valid and isinstance(V.dec(valid[0]), list) and V.dec(valid[0]):
                ops.append(["augset", path, [valid[0][0] if isinstance(valid[0], list) else V.dec(valid[0])[0]]])
            elif kind == "Dict" and valid and isinstance(V.dec(valid[0]), dict) and V.dec(valid[0]):
                ops.append(["augset", path, valid[0]])
        if kind in ("Str", "Int", "Float", "Port", "Bool", "IPv4", "Net", "Host", "Url", "LogLevel", "AppMode", "File") and "[" not in path:
            opt = "--" + path.replace(".", "-").replace("_", "-").lower()
            for cls, v in vals:
                dv = V.dec(v)
                if isinstance(dv, str) and kind != "Bool":
                    ops.append(["cmdline", [opt, dv], path, dv])
                elif kind != "Bool" and isinstance(dv, (int, float)) and not isinstance(dv, bool) and dv == dv and abs(dv) < 1e15:
                    ops.append(["cmdline", [opt, repr(dv)], path, repr(dv)])        # numbers as typed on a command line, 0 included
            if kind != "Bool" and kind in ("Int", "Float"):
                ops.append(["cmdline", [opt, "0"], path, "0"])
            if kind == "Bool":
                ops.append(["cmdline", [opt], path, True])
                ops.append(["cmdline", ["--no-" + opt[2:]], path, False])
        if kind == "List" and f.get("item") is not None or kind == "List":
            good, bad_ = valid[0], (invalid[0] if invalid else None)
            gi = V.dec(good)[0] if V.dec(good) else 1
            ops.append(["mut", path, "append", gi])
            ops.append(["mut", path, "insert", 0, gi])
            ops.append(["mut", path, "setitem", 0, gi])
            ops.append(["mut", path, "extend", [gi]])
            ops.append(["mut", path, "iadd", T(gi)])
            ops.append(["mut", path, "setslice", [0, 1, None], V.ITER([gi])])
            ops.append(["mut", path, "pop"])
            if f.get("item") is not None and f["item"]["k"] in ("Int", "Port"):
                # equal to an integer item but of another type: rejected (bool) or converted (float), never stored as it is
                ops.append(["mut", path, "setitem", 0, True])
                ops.append(["mut", path, "setitem", 0, F(1.0)])
                ops.append(["mut", path, "setitem", 0, 1])
            if f.get("item") is not None:
                bi = "x" if f["item"]["k"] == "Int" else 5
                bn = "3" if f["item"]["k"] == "Int" else " n "
                for m in (["append", bi], ["insert", 0, bi], ["setitem", 0, bi], ["extend", [gi, bi]], ["iadd", [bi]],
                          ["setslice", [0, 1, None], [bi]], ["append", bn], ["extend", V.GEN([bn])],
                          ["extend", {"$": "foreign-list", "items": [bn], "any": False}],
                          ["iadd", {"$": "foreign-list", "items": [bi]}],
                          ["setslice", [0, 0, None], {"$": "foreign-list", "items": [bn]}]):
                    ops.append(["mut", path] + m)
        if kind == "List" and f.get("item") is not None and f["item"]["k"] in ("Int", "Str"):
            it = f["item"]["k"]
            loose = [10, 70000] if it == "Int" else [" n ", "UPPER-and-too-long"]
            tight_ok = [2] if it == "Int" else ["b"]
            for route in ("set", "setitem"):
                ops.append([route, path, {"$": "foreign-list", "items": loose}])
                ops.append([route, path, {"$": "foreign-list", "items": tight_ok}])
                ops.append([route, path, {"$": "foreign-list-plus", "items": tight_ok, "plus": loose[:1]}])
        if kind == "Dict" and f.get("val") is not None and f["val"]["k"] == "Int" and (f.get("key") or {}).get("k") == "Str":
            for route in ("set", "setitem"):
                ops.append([route, path, {"$": "foreign-dict", "items": D((" F ", 70000))}])
                ops.append([route, path, {"$": "foreign-dict", "items": D(("g", 3))}])
        if kind == "Dict":
            ops.append(["mut", path, "setitem", "n", 1])
            ops.append(["mut", path, "update", D(("n", 2))])
            ops.append(["mut", path, "setdefault", "m", 3])
            ops.append(["mut", path, "ior", D(("p", 4))])
            ops.append(["mut", path, "clear"])
            if f.get("val") is not None:
                for m in (["setitem", "n", "x"], ["setitem", " N ", "5"], ["update", D(("n", "x"))], ["update", [[" Q ", "6"]]],
                          ["setdefault", "m", "x"], ["setdefault", " M ", "7"], ["ior", D(("p", "x"))], ["ior", D((" P ", "8"))],
                          ["updatekw", D(("kw", "x"))], ["update", {"$": "foreign-dict", "items": D((" F ", "9"))}],
                          ["update", {"$": "foreign-dict", "items": D(("f", "x"))}]):
                    ops.append(["mut", path] + m)
    loose = dict(spec["fields"]).get("loose")
    if loose is not None:
        fs = {"k": spec_l["k"], "o": {a: b for a, b in spec_l.get("o", {}).items() if a not in ("default", "default_callable")}}
        for v in list(invalid) + list(valid):
            try:
                dv = V.dec(v)
            except Exception:  # noqa
                continue
            if R.ref_validate(loose, dv)[0] == "ok":
                ops.append(["set", "loose", v])
    # sub-configuration routes
    for key, f in spec["fields"]:
        if f["k"] in ("Schema", "CType"):
            inner = [(p, ff) for p, ff in leaf_paths(f) if ff == spec_l]
            if inner:
                p0 = inner[0][0]
                v_ok, v_bad = valid[-1], (invalid[0] if invalid else None)
                if _jsonlike(v_ok):
                    ops.append(["set", key, tree_for(p0, v_ok)])
                    ops.append(["setcfg", key, tree_for(p0, v_ok)])
                    ops.append(["load_tree", tree_for(key + "." + p0, v_ok)])
                if v_bad is not None and _jsonlike(v_bad):
                    ops.append(["set", key, tree_for(p0, v_bad)])
                    ops.append(["setitem", key, tree_for(p0, v_bad)])
            if f.get("reject") and _jsonlike(f["reject"][1]):
                # a configuration object that its own schema validator would reject (filled without validation)
                ops.append(["setcfg-nv", key, tree_for(f["reject"][0], f["reject"][1])])
            ops.append(["set", key, D()])
            ops.append(["set", key, 5])
            ops.append(["set", key, [1]])
            ops.append(["set", key, D(("nosuchfield", 1))] if not f.get("dynamic") else ["set", key, D(("extra", 1))])
            if inner and _jsonlike(valid[-1]) and not f.get("dynamic"):
                t = tree_for(inner[0][0], valid[-1])
                ops.append(["set", key, {"$": "d", "v": t["v"] + [["nosuchfield", 1]]}])
                ops.append(["setitem", key, {"$": "d", "v": t["v"] + [["nosuchfield", 1]]}])
            ops.append(["reset", key])
        if f["k"] == "List" and isinstance(f.get("item"), dict) and f["item"]["k"] in ("Schema", "CType"):
            v_ok, v_bad = valid[-1], (invalid[0] if invalid else None)
            has_r = any(kk == "r" for kk, _ in f["item"]["fields"])
            has_inner = any(kk == "inner" for kk, _ in f["item"]["fields"])
            good = D(("c", v_ok), ("r", "x")) if has_r else D(("c", v_ok))
            if has_inner and _jsonlike(v_ok):
                good = D(("c", v_ok), ("r", "x"), ("inner", D(("e", v_ok))))
                ops.append(["itemset", key, 0, "inner.e", valid[0]])
                if v_bad is not None:
                    ops.append(["itemset", key, 0, "inner.e", v_bad])
                    if _jsonlike(v_bad):
                        ops.append(["mut", key, "append", D(("c", v_ok), ("r", "x"), ("inner", D(("e", v_bad))))])
                        ops.append(["mut", key, "setitem", 0, D(("c", v_ok), ("r", "x"), ("inner", D(("e", v_bad))))])
                ops.append(["itemset", key, 0, "inner", D(("e", v_ok))])
                ops.append(["itemset", key, 0, "inner", 5])
            if _jsonlike(v_ok):
                ops.append(["set", key, [good]])
                ops.append(["mut", key, "append", good])
                ops.append(["mut", key, "insert", 0, good])
                ops.append(["load_tree", D((key, [good, good]))])
            if has_r and _jsonlike(v_ok):
                ops.append(["mut", key, "append", D(("c", v_ok))])          # required r missing
                ops.append(["set", key, [D(("c", v_ok))]])
            if v_bad is not None and _jsonlike(v_bad):
                bad = D(("c", v_bad), ("r", "x")) if has_r else D(("c", v_bad))
                ops.append(["mut", key, "append", bad])
                ops.append(["mut", key, "setitem", 0, bad])
                ops.append(["set", key, [good, bad]])
                ops.append(["itemset", key, 0, "c", v_bad])
            ops.append(["itemset", key, 0, "c", valid[0]])
            if _jsonlike(v_ok):
                unk = D(("c", v_ok), ("r", "x"), ("nosuchfield", 1)) if has_r else D(("c", v_ok), ("nosuchfield", 1))
                for m in (["setitem", 0, unk], ["append", unk], ["insert", 0, unk], ["insert", 1, unk]):     # insert behind an item the half-loaded candidate may equal
                    ops.append(["mut", key] + m)
                ops.append(["mut", key, "append", D()])                   # an item made of defaults only
                if v_bad is not None and _jsonlike(v_bad):
                    ops.append(["mut", key, "insert", 1, D(("c", v_bad), ("r", "x")) if has_r else D(("c", v_bad))])
            ops.append(["mut", key, "append", 5])
            ops.append(["mut", key, "pop"])
            ops.append(["reset", key])
    # a configuration that sits in one list is offered to another list of the same item type
    lists = [(key, f) for key, f in spec["fields"] if f["k"] == "List" and isinstance(f.get("item"), dict) and f["item"]["k"] in ("Schema", "CType")]
    for ka, fa in lists:
        for kb, fb in lists:
            if ka != kb and fa["item"] == fb["item"]:
                held = {"$": "item-of", "path": ka, "index": 0}
                ops.append(["mut", kb, "append", held])
                ops.append(["mut", kb, "setitem", 7, held])
                ops.append(["mut", kb, "insert", 0, held])
                ops.append(["set", kb, [held, D(("nosuchfield", 1))]])
                ops.append(["setitem", kb, [held, 5]])
    if spec.get("dynamic"):
        # a dynamic key is any attribute name: one that contains a dot is one key (here spelled like the path of a declared
        # nested field), not a path
        ops.append(["rawset", "dyn.x", 5])
        ops.append(["rawset", "p.q", "v"])
        ops.append(["setitem", "_hidden", 5])         # by item assignment a key may begin with an underscore
        ops.append(["rawset", "gr\u00f6\u00dfe", 5])          # an identifier (and an XML name) outside ASCII
        ops.append(["set", "newfield", 5])
        ops.append(["setitem", "newfield", "s"])
        ops.append(["load_tree", D(("loaded_dyn", [1]))])
    for key, f in spec["fields"]:
        if f["k"] == "Schema" and f.get("dynamic"):
            ops.append(["set", key + ".extra", 7])
            ops.append(["load_tree", D((key, D(("extra2", "v"))))])
    if not spec.get("dynamic"):
        ops.append(["set", "nosuchfield", 1])
        ops.append(["load_tree", D(("nosuchfield", 1))])
    ops.append(["loads", "json", D(("nosuchmap", D(("x", 1))))])
    ops.append(["loads", "json", D(("nosuchmap", D(("x", D(("y", 1))))))])
    # de-duplicate, keep order
    seen, out = set(), []
    for op in ops:
        r = json.dumps(op, sort_keys=True, default=repr)
        if r not in seen:
            seen.add(r)
            out.append(op)
    return out


def _jsonlike(v):
    d = V.dec(v) if not isinstance(v, dict) or "$" in v else v
    try:
        json.dumps(d, allow_nan=True)
        return not _has_tuple(d)
    except (TypeError, ValueError):
        return False


def _has_tuple(d):
    if isinstance(d, tuple):
        return True
    if isinstance(d, list):
        return any(_has_tuple(x) for x in d)
    if isinstance(d, dict):
        return any(_has_tuple(x) for x in d.values())
    return False


def initial_states(spec, leafname):
    """constructor-keyword starts: none, and every single root-level keyword (valid and invalid)"""
    spec_l, valid, invalid = catalogue()[leafname]
    inits = [None]
    for key, f in spec["fields"]:
        if f == spec_l:
            for v in valid[-1:] + invalid[:2]:
                inits.append({key: v})
            if not f.get("o", {}).get("required"):
                inits.append({key: None})          # an explicit None keyword (unsets the field; it still counts as assigned)
        elif f["k"] in ("Schema", "CType"):
            inner = [(p, ff) for p, ff in leaf_paths(f) if ff == spec_l]
            if inner and _jsonlike(valid[-1]):
                inits.append({key: tree_for(inner[0][0], valid[-1])})
                if invalid and _jsonlike(invalid[0]):
                    inits.append({key: tree_for(inner[0][0], invalid[0])})
    # a keyword the schema does not declare: a new dynamic value on a dynamic schema, an error everywhere else
    inits.append({"undeclared_kw": 5})
    return inits


# ---------------------------------------------------------------------------------------------
# BFS over histories
# ---------------------------------------------------------------------------------------------
def strip_ids(snap):
    out = []
    for x in snap:
        if x[1] == "cfg":
            out.append((x[0], x[1], strip_ids(x[2]), x[3]))
        elif x[1].startswith("cfgs:"):
            out.append((x[0], x[1], tuple(strip_ids(y) for y in x[2]), x[3]))
        else:
            out.append(x)
    return tuple(out)


def build_world(spec, hist, sibling=False, built=None):
    """re-materialise the state reached by `hist` on a fresh configuration (and a fresh schema unless one is shared)"""
    w = World(spec, hist[0][1], built, sibling=sibling)
    for op in hist[1:]:
        try:
            apply_op(w, op)
        except Exception:  # noqa  (each transition of the history is checked in its own right)
            pass
    return w


def _dropped(op, drop):
    return op[0] in drop or ("nv" in drop and op[0] == "load_tree" and len(op) > 2 and op[2] == "nv")


def explore(ctx, spec, leafname, depth, monitor, tier="quick", max_states=20000, only=None, sibling=False, extra_ops=(), share_schema=False, drop=()):
    """Breadth-first search over operation histories with canonical-state de-duplication.
    monitor.state(ctx, w, hist) is called for every newly reached state (incl. initial ones) and
    monitor.step(ctx, before, before_ids, op, outcome, w, hist) for every transition."""
    ops = [o for o in ops_for(spec, leafname, tier) if not _dropped(o, drop)] + list(extra_ops)
    inits = initial_states(spec, leafname)
    seen = {}
    frontier = collections.deque()
    cut = False
    shared = Built(spec) if share_schema and only is None else None    # state kept on the schema's fields is then shared by all worlds
    if only is not None:
        hist, op = only
        try:
            w = build_world(spec, hist, sibling)
        except Exception as exc:  # noqa  (the constructor itself rejected the keywords)
            monitor.ctor_failed(ctx, spec, hist[0][1], exc)
            return 0, len(ops)
        before_ids = snapshot(w.cfg, with_ids=True)
        try:
            outcome = ("ok", apply_op(w, op)) if op is not None else ("ok", None)
        except Exception as exc:  # noqa
            outcome = ("raise", exc)
        if op is not None:
            monitor.step(ctx, strip_ids(before_ids), before_ids, op, outcome, w, hist)
        monitor.state(ctx, w, hist + ([op] if op is not None else []))
        return 1, len(ops)
    for init in inits:
        try:
            w = World(spec, init, shared, sibling=sibling)
        except Exception as exc:  # noqa
            monitor.ctor_failed(ctx, spec, init, exc)
            continue
        hist = [["init", init]]
        monitor.state(ctx, w, hist)
        key = snapshot(w.cfg)
        if key not in seen:
            seen[key] = hist
            frontier.append(hist)
    ctx.states += len(seen)
    while frontier:
        hist = frontier.popleft()
        d = len(hist) - 1
        ctx.depth = max(ctx.depth, d + 1)
        for op in ops:
            w = build_world(spec, hist, sibling, shared)
            before_ids = snapshot(w.cfg, with_ids=True)
            try:
                outcome = ("ok", apply_op(w, op))
            except Exception as exc:  # noqa
                outcome = ("raise", exc)
            ctx.transitions += 1
            monitor.step(ctx, strip_ids(before_ids), before_ids, op, outcome, w, hist)
            key = snapshot(w.cfg)
            if key not in seen:
                ctx.states += 1
                monitor.state(ctx, w, hist + [op])
                seen[key] = hist + [op]
                if d + 1 < depth and len(seen) <= max_states:
                    frontier.append(hist + [op])
                else:
                    cut = True
                    if len(seen) > max_states:
                        ctx.caps.append("max_states %d reached for %s" % (max_states, leafname))
        ctx.traces += 1
    if ctx.closed is not False:
        ctx.closed = not cut
    return len(seen), len(ops)
