"""
JSON-able descriptions of Python argument values ("value specs") and a type-exact canonical form.

Alphabets hold *specs*, never live objects: every application of an operation decodes a fresh
object, so the harness can never itself create the aliasing it is looking for.
"""
import math


class Opaque:
    """A value of a type the library knows nothing about (stands for object())."""

    def __repr__(self):
        return "<Opaque>"


def F(x):
    return {"$": "f", "v": repr(float(x))}


def Y(b):
    return {"$": "y", "v": bytes(b).hex()}


def BA(b):
    """a bytearray: bytes-like, mutable, not `bytes`"""
    return {"$": "ba", "v": bytes(b).hex()}


def T(*items):
    return {"$": "t", "v": list(items)}


def D(*pairs):
    return {"$": "d", "v": [list(p) for p in pairs]}


OBJ = {"$": "obj"}


def ITER(items):
    return {"$": "iter", "v": list(items)}


def GEN(items):
    return {"$": "gen", "v": list(items)}


def RANGE(*a):
    return {"$": "range", "v": list(a)}


def enc(v):
    """Python value -> spec (for plain data, used to put observed values into replay files)."""
    if v is None or isinstance(v, (bool, str)):
        return v
    if isinstance(v, int):
        return v
    if isinstance(v, float):
        return F(v)
    if isinstance(v, bytearray):
        return BA(v)
    if isinstance(v, bytes):
        return Y(v)
    if isinstance(v, tuple):
        return {"$": "t", "v": [enc(x) for x in v]}
    if isinstance(v, list):
        return [enc(x) for x in v]
    if isinstance(v, dict):
        return {"$": "d", "v": [[enc(k), enc(x)] for k, x in v.items()]}
    if isinstance(v, (set, frozenset)):
        return {"$": "set", "v": [enc(x) for x in sorted(v, key=repr)]}
    if isinstance(v, Opaque) or type(v) is object:
        return OBJ
    return {"$": "repr", "v": repr(v)}


class LegacySeq:
    """iterable only through the old sequence protocol (__getitem__ with 0, 1, 2, ... until IndexError): no __iter__, no __len__"""

    def __init__(self, items):
        self._items = list(items)

    def __getitem__(self, i):
        return self._items[i]


def dec(s, resolve=None):
    """spec -> fresh Python value. `resolve(spec)` handles driver-specific {"$":"ref"...}."""
    if s is None or isinstance(s, (bool, int, str)):
        return s
    if isinstance(s, float):
        return s
    if isinstance(s, list):
        return [dec(x, resolve) for x in s]
    tag = s["$"]
    if tag == "f":
        return float(s["v"])
    if tag == "y":
        return bytes.fromhex(s["v"])
    if tag == "ba":
        return bytearray.fromhex(s["v"])
    if tag == "t":
        return tuple(dec(x, resolve) for x in s["v"])
    if tag == "d":
        return {dec(k, resolve): dec(v, resolve) for k, v in s["v"]}
    if tag == "set":
        return {dec(x, resolve) for x in s["v"]}
    if tag == "obj":
        return Opaque()
    if tag == "iter":
        return iter([dec(x, resolve) for x in s["v"]])
    if tag == "gen":
        items = [dec(x, resolve) for x in s["v"]]
        return (x for x in items)
    if tag == "range":
        return range(*s["v"])
    if tag == "mproxy":       # mappings that are not dicts: a read-only view / a UserDict
        import types
        return types.MappingProxyType({dec(k, resolve): dec(v, resolve) for k, v in s["v"]})
    if tag == "userdict":
        import collections
        return collections.UserDict({dec(k, resolve): dec(v, resolve) for k, v in s["v"]})
    if tag == "legacyseq":
        return LegacySeq([dec(x, resolve) for x in s["v"]])
    if tag == "dv":
        # a ready-made digest value: hash(salt + secret) with a salt of the given length (any length: only the
        # library's own hashing cuts salts to the digest size)
        import hashlib
        from cincoconfig.fields import DigestValue
        h = getattr(hashlib, s["alg"])
        salt = bytes((i * 7 + 3) % 256 for i in range(s["salt_len"]))
        return DigestValue(salt, h(salt + s["secret"].encode()).digest(), h)
    if tag == "bigstr":
        return s["c"] * s["n"]
    if resolve is not None:
        return resolve(s)
    raise ValueError("unknown value spec %r" % (s,))


def canon(v, _cfg=None):
    """Type-exact canonical (hashable) form: bool != int != float, NaN == NaN, list != tuple,
    proxies are compared by content (their class name is kept), dicts sorted by key canon."""
    if v is None:
        return ("N",)
    t = type(v)
    if t is bool:
        return ("b", v)
    if t is int:
        return ("i", v)
    if t is float:
        if math.isnan(v):
            return ("f", "nan")
        return ("f", repr(v))
    if t is str:
        return ("s", v)
    if t is bytes:
        return ("y", v)
    if t is bytearray:
        return ("ba", bytes(v))
    if t is tuple:
        return ("t",) + tuple(canon(x, _cfg) for x in v)
    if isinstance(v, list):
        return ("l" if t is list else "L:" + t.__name__,) + tuple(canon(x, _cfg) for x in v)
    if isinstance(v, dict):
        items = sorted(((canon(k, _cfg), canon(x, _cfg)) for k, x in v.items()), key=repr)
        return ("d" if t is dict else "D:" + t.__name__,) + tuple(items)
    name = t.__name__
    if hasattr(v, "_data") and hasattr(v, "_schema") and hasattr(v, "to_tree"):
        # a configuration object met inside a container value: compared by what it holds, not by identity
        return ("cfg",) + tuple((k, canon(x, _cfg)) for k, x in v)
    if name == "DigestValue":
        alg = getattr(v.algorithm, "__name__", repr(v.algorithm))
        return ("dg", v.salt, v.digest, alg)
    if _cfg is not None:
        c = _cfg(v)
        if c is not None:
            return c
    if isinstance(v, Opaque) or t is object:
        return ("o",)
    if isinstance(v, (int, float, str, bytes)):
        return ("sub:" + name, repr(v))
    return ("o:" + name, repr(v) if t.__repr__ is not object.__repr__ else "")


def plain(v):
    """Canonical form that ignores proxy classes (content only): list-like -> 'l', dict-like -> 'd'."""
    c = canon(v)
    return _plain(c)


def _plain(c):
    if not isinstance(c, tuple) or not c:
        return c
    head = c[0]
    if isinstance(head, str) and head.startswith("L:"):
        head = "l"
    elif isinstance(head, str) and head.startswith("D:"):
        head = "d"
    return (head,) + tuple(_plain(x) if isinstance(x, tuple) else x for x in c[1:])


def show(v, limit=160):
    r = repr(v)
    return r if len(r) <= limit else r[: limit - 3] + "..."
