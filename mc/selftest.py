"""setup_cmd: nothing to build (pure Python, editable install of /repo); verify the pieces are present."""
import os
import sys


def main():
    from mc import core
    core.bootstrap()
    import cincoconfig  # noqa
    ok = True
    try:
        from mc.ref import aes
        aes.selftest()
    except ImportError:
        pass
    except Exception as exc:  # noqa
        print("selftest: reference AES failed:", exc)
        ok = False
    print("selftest: cincoconfig from", os.path.dirname(cincoconfig.__file__), "python", sys.version.split()[0])
    return 0 if ok else 2
