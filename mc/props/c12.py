"""
C12 - defaults, user-defined status and reset behave as a consistent state machine.

BFS over histories of {accepted set, rejected set, tree / document load, command-line override, reset,
map-to-sub-configuration} per (shape, leaf kind), from the default construction and from every single
constructor keyword.  Oracles (reference: the declared default of each field, its normal form from
mc/ref/fields.py, and the user-defined mark as a function of the history):
  fresh configuration -> every field shows its declared default and is not user-defined;
  callable defaults are evaluated anew for each configuration and values are not shared;
  accepted assignment / load of a field -> user-defined; rejected assignment -> no mark moves;
  reset -> default value, not user-defined, nothing else touched.
"""
from mc import cfgworld as W
from mc import values as V
from mc.ref import fields as R

PROP = "C12"
LEVEL = "model_checking"
RULE = ("BFS over operation histories per (shape, leaf kind) with canonical-state de-duplication (value and user-defined "
        "mark of every field at every depth); non-trivial = the operation changes a value or a mark, or is rejected; "
        "distinct = distinct (shape, leaf, state, operation)")
ASSUMPTIONS = ["declared defaults are valid and in normal form", "inside a sub-configuration replaced by a map, fields the map does not name are not judged"]

ASSIGN = ("set", "setitem", "setcfg", "itemset", "cmdline")


def bounds(tier):
    leaves = list(W.catalogue()) if tier == "thorough" else W.quick_leaves() + ["list-int-cd", "dict-typed-cd", "int-cd", "challenge-dflt", "list-any-dflt", "challenge-counter", "int-cd-partial", "list-int-cd-object", "dict-typed-cd-partial", "loglevel-rawdflt", "int-rawdflt", "str-rawdflt"]
    return {"shapes": ["flat", "nested", "cfglist", "dynamic", "nested-v"], "leaves": leaves, "depth": 4 if tier == "thorough" else 2, "depth_note": "thorough: 4 for six core leaves, 3 for the other quick-tier leaves, 2 for the rest"}


def jobs(tier):
    b = bounds(tier)
    out = []
    for sh in b["shapes"]:
        for leaf in b["leaves"]:
            depth = b["depth"]
            if tier == "thorough":      # 4 for the core leaves, 3 for the other quick-tier leaves, 2 for the rest of the catalogue
                depth = 4 if leaf in W.core_leaves()[:6] else (3 if leaf in W.quick_leaves() or leaf in W.core_leaves() else 2)
            out.append({"name": "%s/%s" % (sh, leaf), "shape": sh, "leaf": leaf, "depth": depth, "tier": tier})
    for sh in ("nested+late", "cfglist+late", "nested+off"):
        for leaf in ["int09", "str-norm", "list-int", "dict-typed", "bool"] + ["int-cd", "list-int-cd"]:
            out.append({"name": "%s/%s" % (sh, leaf), "shape": sh, "leaf": leaf, "depth": b["depth"], "tier": tier})
    for sh in ("nested+env", "cfglist+env"):
        for leaf in (b["leaves"] if tier == "thorough" else ["int09", "str-norm", "bool", "list-int", "dict-typed", "int-cd"]):
            out.append({"name": "%s/%s" % (sh, leaf), "shape": sh, "leaf": leaf, "depth": b["depth"], "tier": tier})
    out.append({"name": "env-built", "kind": "envbuilt"})
    out.append({"name": "include-load", "kind": "include", "tier": tier})
    out.append({"name": "storage-hooks", "kind": "hooks"})
    return out


def default_norm(f):
    """reference normal form of the declared default of leaf spec f (None when absent)"""
    o = f.get("o", {})
    if o.get("default_counter"):
        return ("undef", "a different secret per evaluation: judged by per_call_defaults")
    if "default" not in o:
        return ("ok", None)
    fs = dict(f)
    fs["o"] = {a: b for a, b in o.items() if a not in ("default", "default_callable", "required")}
    return R.ref_validate(fs, V.dec(o["default"]))


def marks(snap, pre=""):
    out = {}
    for x in snap:
        out[pre + x[0]] = x[3]
        if x[1] == "cfg":
            out.update(marks(x[2], pre + x[0] + "."))
    return out


class Monitor:
    def __init__(self, shape, leaf, tier):
        self.shape, self.leaf, self.tier = shape, leaf, tier
        self.spec = W.shape(shape, leaf)

    def case(self, hist, op):
        return {"shape": self.shape, "leaf": self.leaf, "hist": hist, "op": op, "tier": self.tier, "job": "%s/%s" % (self.shape, self.leaf)}

    def ctor_failed(self, ctx, spec, init, exc):
        ctx.case((self.shape, self.leaf, "init", repr(init)), "ctor:rejected", True)

    def bad(self, ctx, what, msg, hist, op):
        from mc.props.c01 import _opkey
        ctx.violation("C12|%s|%s|%s|%s" % (self.shape, self.leaf, what, _opkey(op) if op else "fresh"), msg, self.case(hist, op), size=len(hist))

    def check_defaults(self, ctx, cfg, spec, pre, hist, op, only_under=None, skip=()):
        """every leaf below `pre` shows its declared default and is not user-defined"""
        import cincoconfig as cc
        for key, f in spec["fields"]:
            path = pre + key
            if path in skip:
                continue
            if f["k"] in ("Schema", "CType"):
                sub = getattr(cfg, key)
                if cc.is_value_defined(cfg, key):
                    self.bad(ctx, "fresh-subconfig-marked", "after %s: sub-configuration %s of a fresh configuration counts as user-defined" % (hist, path), hist, op)
                self.check_defaults(ctx, sub, f, path + ".", hist, op, skip=skip)
                continue
            if f["k"] == "List" and isinstance(f.get("item"), dict):
                if f["item"]["k"] in ("Schema", "CType"):
                    continue
            value = getattr(cfg, key)
            d = default_norm(f)
            raw_default = V.dec(f["o"]["default"]) if "default" in f.get("o", {}) and not f["o"].get("default_callable") else None
            if raw_default is not None and V.canon(value) == V.canon(raw_default):
                pass          # the declared default, literally (a default that is valid but not in normal form)
            elif d[0] == "ok" and not (value is None and d[1] is None) and not R.matches(value, d[1]):
                self.bad(ctx, "default-value", "after %s: %s shows %s, its declared default is %s" % (hist, path, V.show(value, 40), V.show(d[1], 40)), hist, op)
            if cc.is_value_defined(cfg, key):
                self.bad(ctx, "default-marked-defined", "after %s: %s holds its default but counts as user-defined" % (hist, path), hist, op)

    def dotted_agrees(self, ctx, w, hist):
        """is_value_defined(root, 'a.b.c') == is_value_defined(cfg.a.b, 'c') for every declared path"""
        import cincoconfig as cc

        def walk(cfg, spec, pre):
            for key, f in spec["fields"]:
                path = pre + key
                try:
                    local = cc.is_value_defined(cfg, key)
                    full = cc.is_value_defined(w.cfg, path)
                except Exception as exc:  # noqa
                    self.bad(ctx, "is-defined-raises", "is_value_defined(%s) raised %r after %s" % (path, exc, hist), hist[:-1] or hist, hist[-1] if len(hist) > 1 else None)
                    continue
                if local != full:
                    self.bad(ctx, "dotted-path-disagrees|depth%d" % (path.count(".") + 1),
                             "after %s: is_value_defined(root, %r) is %s but asking the owning sub-configuration gives %s" % (hist, path, full, local),
                             hist[:-1] or hist, hist[-1] if len(hist) > 1 else None)
                if f["k"] in ("Schema", "CType"):
                    sub = getattr(cfg, key)
                    if isinstance(sub, cc.Config):
                        walk(sub, f, path + ".")
        walk(w.cfg, self.spec, "")

    def per_call_defaults(self, ctx, w, hist):
        """a callable default that returns a new secret on every call: each field of each configuration (and each
        reset) must hold the digest of a secret issued for *it*, i.e. no two of them verify the same issued secret"""
        import cincoconfig as cc
        if not w.built.issued:
            return
        issued = [x for lst in w.built.issued.values() for x in lst]
        cfgs = [w.cfg, w.built.schema()]
        paths = [p for p, f in W.leaf_paths(self.spec) if f.get("o", {}).get("default_counter") and "[" not in p]
        init = hist[0][1] or {}
        paths = [p for p in paths if p.split(".")[0] not in init]
        if paths:
            cc.reset_value(cfgs[1], paths[0])
        issued = [x for lst in w.built.issued.values() for x in lst]
        seen = {}
        for ci, c in enumerate(cfgs):
            for p in paths:
                try:
                    dv = W.chained(c, p)
                except Exception:  # noqa
                    continue
                if dv is None or type(dv).__name__ != "DigestValue":
                    self.bad(ctx, "default-value", "callable default of %s gave %s" % (p, V.show(dv, 40)), hist, None)
                    continue
                ok = []
                for s_ in issued:
                    try:
                        dv.challenge(s_)
                        ok.append(s_)
                    except Exception:  # noqa
                        pass
                if len(ok) != 1:
                    self.bad(ctx, "callable-default-not-issued", "%s of configuration %d verifies %s of the issued secrets" % (p, ci, ok or "none"), hist, None)
                elif ok[0] in seen:
                    self.bad(ctx, "callable-default-reused", "%s of configuration %d holds the digest issued for %s" % (p, ci, seen[ok[0]]), hist, None)
                else:
                    seen[ok[0]] = "%s of configuration %d" % (p, ci)
        # the most recent evaluation belongs to the field that was reset last
        if paths and issued:
            try:
                W.chained(cfgs[1], paths[0]).challenge(issued[-1])
            except Exception:  # noqa
                self.bad(ctx, "reset-not-reevaluated", "after reset, %s does not hold the digest of the secret the default just returned" % paths[0], hist, None)

    def state(self, ctx, w, hist):
        self.dotted_agrees(ctx, w, hist)
        if len(hist) == 1:
            init = hist[0][1] or {}
            self.check_defaults(ctx, w.cfg, self.spec, "", hist, None, skip=set(init))
            import cincoconfig as cc
            for k in init:
                if k == "undeclared_kw":
                    if not self.spec.get("dynamic"):
                        self.bad(ctx, "ctor-unknown-keyword-accepted", "the constructor accepted a keyword the (non-dynamic) schema does not declare", hist, None)
                        continue
                    try:
                        ok = getattr(w.cfg, k) == 5 and cc.is_value_defined(w.cfg, k)
                    except Exception:  # noqa
                        ok = False
                    if not ok:
                        self.bad(ctx, "ctor-dynamic-keyword-lost", "constructor keyword %s=5 on a dynamic schema is not held as a user-defined value" % k, hist, None)
                    continue
                if not cc.is_value_defined(w.cfg, k):
                    self.bad(ctx, "ctor-keyword-not-defined", "constructor keyword %s does not count as user-defined" % k, hist, None)
                if init[k] is None and getattr(w.cfg, k) is not None:
                    self.bad(ctx, "ctor-none-overwritten", "constructor keyword %s=None reads back as %s" % (k, V.show(getattr(w.cfg, k), 40)), hist, None)
            # callable defaults: evaluated for this configuration, again for the next one, values not shared
            for name, n in list(w.built.counters.items()):
                c2 = w.built.schema()
                if w.built.counters[name] <= n:
                    self.bad(ctx, "callable-default-not-reevaluated", "callable default %s was not evaluated for a second configuration" % name[:60], hist, None)
            self.per_call_defaults(ctx, w, hist)
            if not init:
                a, b = w.cfg, w.built.schema()
                for p, f in W.leaf_paths(self.spec):
                    if f.get("o", {}).get("default") is not None and f["k"] in ("List", "Dict") and "[" not in p:
                        try:
                            va, vb = W.chained(a, p), W.chained(b, p)
                        except Exception:  # noqa
                            continue
                        if va is not None and va is vb:
                            self.bad(ctx, "default-shared", "two configurations share the default object of %s" % p, hist, None)

    def step(self, ctx, before, before_ids, op, outcome, w, hist):
        import cincoconfig as cc
        after = W.snapshot(w.cfg)
        ctx.case((self.shape, self.leaf, repr(before), repr(op)), "%s:%s" % (op[0] if op[0] != "mut" else "mut", "ok" if outcome[0] == "ok" else "rejected"),
                 after != before or outcome[0] == "raise")
        mb, ma = marks(before), marks(after)
        if op[0] == "validate":
            # a validation pass, passing or failing, neither changes a value nor which fields count as user-defined
            if after != before:
                self.bad(ctx, "validate-changes", "after %s, validate() changed the configuration at %s" % (hist, W.diff_paths(before, after)), hist, op)
            return
        if outcome[0] == "raise":
            if op[0] in ASSIGN and mb != ma:
                moved = sorted(k for k in set(mb) | set(ma) if mb.get(k) != ma.get(k))
                self.bad(ctx, "rejected-moves-mark", "after %s, %s was rejected (%r) but the user-defined status of %s changed" % (hist, op, outcome[1], moved), hist, op)
            return
        from mc.props.c01 import _target
        t = _target(op, self.spec)
        if t is None:
            return
        path = t[0]
        f = W.subspec(self.spec, path)
        if op[0] == "reset":
            # restored default, not user-defined, nothing else touched
            owner = W.chained(w.cfg, path.rsplit(".", 1)[0]) if "." in path else w.cfg
            key = path.rsplit(".", 1)[-1]
            if cc.is_value_defined(owner, key):
                self.bad(ctx, "reset-still-defined", "after %s, reset(%s) leaves the field user-defined" % (hist, path), hist, op)
            if f is not None and f["k"] in ("Schema", "CType"):
                self.check_defaults(ctx, getattr(owner, key), f, path + ".", hist + [op], op)
            elif f is not None and not (f["k"] == "List" and isinstance(f.get("item"), dict) and f["item"]["k"] in ("Schema", "CType")):
                d = default_norm(f)
                value = getattr(owner, key)
                raw_default = V.dec(f["o"]["default"]) if "default" in f.get("o", {}) and not f["o"].get("default_callable") else None
                if raw_default is not None and V.canon(value) == V.canon(raw_default):
                    pass      # the declared default, literally
                elif d[0] == "ok" and not (value is None and d[1] is None) and not R.matches(value, d[1]):
                    self.bad(ctx, "reset-value", "after %s, reset(%s) gives %s, the declared default is %s" % (hist, path, V.show(value, 40), V.show(d[1], 40)), hist, op)
            stray = [d for d in W.diff_paths(before, after) if not (d.split("#")[0] == path or d.split("#")[0].startswith(path + "."))]
            if stray:
                self.bad(ctx, "reset-touches-other", "after %s, reset(%s) also changed %s" % (hist, path, stray), hist, op)
            return
        if op[0] in ("set", "setitem", "load_tree", "loads", "setcfg", "cmdline", "selfset", "augset") and f is not None:
            # the field a value was successfully assigned / loaded for is user-defined, and so is every
            # enclosing sub-configuration key on a tree route
            try:
                owner = W.chained(w.cfg, path.rsplit(".", 1)[0]) if "." in path else w.cfg
                if not cc.is_value_defined(owner, path.rsplit(".", 1)[-1]):
                    self.bad(ctx, "assigned-not-defined", "after %s, %s succeeded but %s does not count as user-defined" % (hist, op, path), hist, op)
            except Exception as exc:  # noqa
                self.bad(ctx, "is-defined-raises", "is_value_defined(%s) raised %r" % (path, exc), hist, op)
            scope = path.split(".")[0] if op[0] in ("load_tree", "loads") else path
            moved = sorted(k for k in set(mb) | set(ma) if mb.get(k) != ma.get(k))
            stray = [k for k in moved if not (k == scope or k.startswith(scope + ".") or scope.startswith(k + "."))]
            if stray:
                self.bad(ctx, "other-mark-moved", "after %s, %s changed the user-defined status of %s" % (hist, op, stray), hist, op)


ENV_KINDS = {
    "int": (lambda cc, **kw: cc.IntField(min=0, max=99, default=1, **kw), "42", 42, 7, "not-a-number"),
    "str": (lambda cc, **kw: cc.StringField(transform_case="lower", default="dflt", **kw), "FROM-ENV", "from-env", "assigned", 5),
    "bool": (lambda cc, **kw: cc.BoolField(default=False, **kw), "yes", True, False, "maybe"),
    "float": (lambda cc, **kw: cc.FloatField(default=0.5, **kw), "2.5", 2.5, 1.25, "x"),
    "nodefault": (lambda cc, **kw: cc.IntField(**kw), "3", 3, 4, "x"),
}


def _envbuilt(job, ctx):
    """fields whose value comes from a bound, non-empty environment variable when the configuration is built: they hold the
    validated variable, are *not* user-defined (nothing was assigned or loaded), become user-defined on assignment, and a
    reset brings the variable's value and the not-user-defined status back; rejected assignments change nothing"""
    import os
    import cincoconfig as cc
    only = job.get("only")
    for kind, (mk, raw, val, assign, bad) in ENV_KINDS.items():
        for binding in ("prefix", "named"):
            for pos in ("f", "sub.f", "sub.deep.f"):
                ident = [kind, binding, pos]
                if only is not None and only != ident:
                    continue
                s = cc.Schema(env="C12ENV") if binding == "prefix" else cc.Schema()
                fields = {}
                for p in ("f", "sub.f", "sub.deep.f"):
                    fields[p] = mk(cc, **({"env": "C12NAMED_" + p.replace(".", "_").upper()} if binding == "named" else {}))
                    s[p] = fields[p]
                s.other = cc.IntField(default=9, env=False)
                name = fields[pos].env
                for k in [k for k in os.environ if k.startswith("C12")]:
                    del os.environ[k]
                os.environ[name] = raw
                case = {"kind": "envbuilt", "jobparams_full": {k: v for k, v in job.items() if k not in ("single", "only")}, "only": ident, "job": job["name"]}
                fp = "C12|env-built|%s|%s|" % (kind, binding)

                def bad_(what, msg, case=case, fp=fp, pos=pos, name=name, raw=raw):
                    ctx.violation(fp + what, "field %s bound to %s=%r: %s" % (pos, name, raw, msg), case)
                try:
                    cfg = s()
                    owner = W.chained(cfg, pos.rsplit(".", 1)[0]) if "." in pos else cfg
                    steps = []
                    steps.append(("fresh", owner.f, cc.is_value_defined(cfg, pos)))
                    try:
                        owner.f = bad
                        steps.append(("rejected-not-raised", owner.f, None))
                    except Exception:  # noqa
                        steps.append(("after-rejected", owner.f, cc.is_value_defined(cfg, pos)))
                    owner.f = assign
                    steps.append(("assigned", owner.f, cc.is_value_defined(cfg, pos)))
                    cc.reset_value(cfg, pos)
                    steps.append(("reset", owner.f, cc.is_value_defined(cfg, pos)))
                    others = [cc.is_value_defined(cfg, p) for p in ("f", "sub.f", "sub.deep.f", "other") if p != pos]
                except Exception as exc:  # noqa
                    ctx.case(("envbuilt",) + tuple(ident), "envbuilt:raises", True)
                    bad_("raises", "the sequence build / rejected assignment / assignment / reset raised %r" % (exc,))
                    continue
                finally:
                    os.environ.pop(name, None)
                ctx.transitions += 4
                ctx.case(("envbuilt",) + tuple(ident), "envbuilt:%s:%s" % (kind, binding), True)
                want = {"fresh": (val, False), "after-rejected": (val, False), "assigned": (assign, True), "reset": (val, False)}
                for step, got_v, got_d in steps:
                    if step not in want:
                        bad_("invalid-accepted", "an invalid value was accepted")
                        continue
                    if V.canon(got_v) != V.canon(want[step][0]):
                        bad_("value|" + step, "%s: the field reads %r, expected %r" % (step, got_v, want[step][0]))
                    if got_d is not want[step][1]:
                        bad_("status|" + step, "%s: is_value_defined is %r, expected %r" % (step, got_d, want[step][1]))
                if any(others):
                    bad_("other-status", "another field counts as user-defined: %s" % (others,))
    ctx.traces += 1
    ctx.sample({"env_built": list(ENV_KINDS)})


def _storage_hooks(job, ctx):
    """fields whose documented storage hook (`__setval__`) refuses a value that passed validation: the assignment is rejected,
    so the field keeps its value and its not-user-defined status (fresh, after a reset, in a sub-configuration, by every route)"""
    import cincoconfig as cc
    only = job.get("only")

    class GrowOnly(cc.IntField):
        def __setval__(self, cfg, value):
            if value is not None and value < (cfg._data.get(self._key) or 0):
                raise ValueError("the counter only grows")
            super().__setval__(cfg, value)

    for state in ("fresh", "after-reset", "assigned"):
        for route in ("attr", "dotted", "item", "load_tree", "ctor-sub-map"):
            ident = [state, route]
            if only is not None and only != ident:
                continue
            s = cc.Schema()
            s.n = GrowOnly(default=10)
            s.w = cc.IntField(default=0)
            s.sub.n = GrowOnly(default=20)
            cfg = s()
            if state == "after-reset":
                cfg.n = 30; cfg.sub.n = 40
                cc.reset_value(cfg, "n"); cc.reset_value(cfg.sub, "n")
            elif state == "assigned":
                cfg.n = 30; cfg.sub.n = 40
            want_defined = state == "assigned"
            want = (30, 40) if state == "assigned" else (10, 20)
            ctx.transitions += 1
            try:
                if route == "attr":
                    cfg.n = 1
                elif route == "dotted":
                    cfg["sub.n"] = 1
                elif route == "item":
                    cfg["n"] = 1
                elif route == "load_tree":
                    cfg.load_tree({"n": 1})
                else:
                    cfg.sub = {"n": 1}
                raised = False
            except Exception:  # noqa
                raised = True
            ctx.case(("hooks", state, route), "hooks:%s" % ("rejected" if raised else "accepted"), True)
            case = {"kind": "hooks", "jobparams_full": {k: v for k, v in job.items() if k not in ("single", "only")}, "only": ident, "job": job["name"]}
            fp = "C12|storage-hooks|%s|%s|" % (state, route)
            if not raised:
                ctx.violation(fp + "accepted", "the storage hook refused the value, the operation returned normally", case)
                continue
            if route == "ctor-sub-map":
                continue        # (a map assigned to a section builds a new sub-configuration: judged by C06)
            got = (cfg.n, cfg.sub.n)
            defined = (cc.is_value_defined(cfg, "n"), cc.is_value_defined(cfg.sub, "n"))
            if got != want:
                ctx.violation(fp + "value", "after the rejected assignment the fields read %r, expected %r" % (got, want), case)
            if defined != (want_defined, want_defined):
                ctx.violation(fp + "mark", "after the rejected assignment the user-defined status is %r, expected %r" % (defined, (want_defined, want_defined)), case)
    ctx.states += 1
    ctx.traces += 1


INC_LEAVES = ["a", "sub.c", "sub.w2", "sub.deep.e"]


def _include_load(job, ctx):
    """a document load that pulls in an include file (named at the root / inside the sub-configuration): both documents may
    name any subset of the fields; afterwards exactly the fields named by either document are user-defined and hold the
    loaded value (the included file's on conflict), every other field shows its declared default and is not user-defined"""
    import itertools
    import json
    import os
    import cincoconfig as cc
    only = job.get("only")
    fmts = ["json"] if job.get("tier") != "thorough" else ["json", "yaml"]

    def nest(assign):
        t = {}
        for path, v in assign.items():
            node = t
            parts = path.split(".")
            for part in parts[:-1]:
                node = node.setdefault(part, {})
            node[parts[-1]] = v
        return t
    subsets = [c for r in range(len(INC_LEAVES) + 1) for c in itertools.combinations(INC_LEAVES, r)]
    seconds = {"root": [None], "sub": [None], "two": [("sub.w2",), ("a", "sub.deep.e")], "chain": [("sub.w2",), ("a", "sub.deep.e")]}
    for where in ("root", "sub", "two", "chain"):
        for fmt in fmts:
            for main in subsets:
                for inc, inc2 in itertools.product(subsets, seconds[where]):
                    if where == "sub" and "a" in inc:
                        continue
                    ident = [where, fmt, list(main), list(inc)] + ([list(inc2)] if inc2 else [])
                    if only is not None and only != ident:
                        continue
                    s = cc.Schema()
                    s.a = cc.IntField(default=1)
                    s.w = cc.IntField(default=0)
                    s.include = cc.IncludeField(startdir=ctx.tmp)
                    s.include2 = cc.IncludeField(startdir=ctx.tmp)       # a second include field in the same scope
                    s.sub.c = cc.IntField(default=2)
                    s.sub.w2 = cc.IntField(default=3)
                    s.sub.inc = cc.IncludeField(startdir=ctx.tmp)
                    s.sub.deep.e = cc.IntField(default=4)
                    defaults = {"a": 1, "sub.c": 2, "sub.w2": 3, "sub.deep.e": 4}
                    f = cc.ConfigFormat.get(fmt)
                    inc_tree = nest({p: 20 + INC_LEAVES.index(p) for p in inc})
                    if where == "sub":
                        inc_tree = inc_tree.get("sub", {})
                    with open(os.path.join(ctx.tmp, "part.inc"), "wb") as fh:
                        fh.write(f.dumps(None, inc_tree))
                    if inc2:
                        # two includes in one scope, both named by the document ("two") or the second named by the first file ("chain")
                        if where == "chain":
                            inc_tree["include2"] = "part2.inc"
                            with open(os.path.join(ctx.tmp, "part.inc"), "wb") as fh:
                                fh.write(f.dumps(None, inc_tree))
                        with open(os.path.join(ctx.tmp, "part2.inc"), "wb") as fh:
                            fh.write(f.dumps(None, nest({p: 30 + INC_LEAVES.index(p) for p in inc2})))
                    main_tree = nest({p: 10 + INC_LEAVES.index(p) for p in main})
                    if where in ("root", "two", "chain"):
                        main_tree["include"] = "part.inc"
                        if where == "two":
                            main_tree["include2"] = "part2.inc"
                    else:
                        main_tree.setdefault("sub", {})["inc"] = "part.inc"
                    cfg = s()
                    ctx.transitions += 1
                    case = {"kind": "include", "jobparams_full": {k: v for k, v in job.items() if k not in ("single", "only")}, "only": ident, "job": job["name"]}
                    fp = "C12|include-load|%s|" % where
                    try:
                        cfg.loads(f.dumps(None, main_tree), fmt)
                    except Exception as exc:  # noqa
                        ctx.violation(fp + "raises", "main document names %s, included file names %s: the load raised %r" % (list(main), list(inc), exc), case)
                        continue
                    ctx.case(("include", where, fmt, main, inc), "include:%d+%d" % (len(main), len(inc)), True)
                    for path in INC_LEAVES:
                        owner = W.chained(cfg, path.rsplit(".", 1)[0]) if "." in path else cfg
                        key = path.rsplit(".", 1)[-1]
                        want = 20 + INC_LEAVES.index(path) if path in inc else (10 + INC_LEAVES.index(path) if path in main else defaults[path])
                        if inc2 and path in inc2:
                            want = 30 + INC_LEAVES.index(path)          # the second include is merged after the first
                        got, defined = getattr(owner, key), cc.is_value_defined(owner, key)
                        named = path in inc or path in main or bool(inc2 and path in inc2)
                        if got != want:
                            ctx.violation(fp + "value|" + ("named" if named else "unnamed"), "main names %s, include names %s: %s reads %r, expected %r" % (list(main), list(inc), path, got, want), case)
                        if defined != named:
                            ctx.violation(fp + "mark|" + ("named" if named else "unnamed"), "main names %s, include names %s: %s %s user-defined" % (list(main), list(inc), path, "is" if defined else "is not"), case)
                    if cc.is_value_defined(cfg, "w") or cfg.w != 0:
                        ctx.violation(fp + "bystander", "the bystander field w changed", case)
    ctx.states += 1
    ctx.traces += 1


def run_job(job, ctx):
    single = job.get("single")
    if single and single.get("kind") == "hooks":
        j = dict(single["jobparams_full"]); j["only"] = single["only"]
        return _storage_hooks(j, ctx)
    if job.get("kind") == "hooks":
        return _storage_hooks(job, ctx)
    if single and single.get("kind") == "include":
        j = dict(single["jobparams_full"]); j["only"] = single["only"]
        return _include_load(j, ctx)
    if job.get("kind") == "include":
        return _include_load(job, ctx)
    if single and single.get("kind") == "envbuilt":
        j = dict(single["jobparams_full"]); j["only"] = single["only"]
        return _envbuilt(j, ctx)
    if job.get("kind") == "envbuilt":
        return _envbuilt(job, ctx)
    if single:
        m = Monitor(single["shape"], single["leaf"], single.get("tier", "quick"))
        W.explore(ctx, m.spec, single["leaf"], 0, m, only=(single["hist"], single["op"]))
        return
    m = Monitor(job["shape"], job["leaf"], job["tier"])
    n, nops = W.explore(ctx, m.spec, job["leaf"], job["depth"], m, tier=job["tier"], max_states=3000, extra_ops=[["validate"]])
    ctx.sample({"shape": job["shape"], "leaf": job["leaf"], "states": n, "operations_per_state": nops})
