"""
C05 - field validation is exact and idempotent; the on-disk encoding is invertible.

For every built-in field class: the product of its option alphabet x the candidate value alphabet is
enumerated completely.  Each (field, value) pair runs the chain
    validate ; validate (again, fresh argument) ; validate(result) ; to_basic ; to_python ; validate
on a real one-field configuration and is compared with the independent reference in mc/ref/fields.py.
"""
import itertools
import os

from mc import core
from mc import values as V
from mc.ref import fields as R
from mc.values import F, Y, T, D, OBJ, BA

PROP = "C05"
LEVEL = "model_checking"
RULE = ("full product: field class x option combination x candidate value; each case runs the 6-step "
        "validate/encode chain on the real field; non-trivial = the reference accepts with a changed normal "
        "form, or rejects for a constraint reason (not merely a wrong type); distinct = distinct "
        "(options, value) pairs")
ASSUMPTIONS = [
    "reference validators in mc/ref/fields.py (int()/float()/str.strip/re.match/base64 are taken from Python)",
    "host names containing newlines, netmask notation, URLs with blanks/control characters are outside the alphabets",
    "SecureField declares no constraint on non-string values: only strings are compared",
]

WRONG = [None, True, False, 0, 1, -1, 2 ** 70, F(1.5), F("inf"), F("nan"), "", "a", Y(b"a"), BA(b"a"), [], [1], T(1), D(),
         D(("a", 1)), OBJ]


def _prod(**axes):
    keys = list(axes)
    for combo in itertools.product(*[axes[k] for k in keys]):
        yield {k: v for k, v in zip(keys, combo) if v is not None or k in ()}


def _clean(o):
    return {k: v for k, v in o.items() if v is not None and v is not False or k in ("exists", "allow_ipv4", "resolve") and v is not None}


STR_VALUES = ["", "a", "abc", "ABC", " a ", "xax", "Xa", "x", "X", "abcd", "aaa", "aXc", "a\nc", "  ", "xx",
              "\ta\n", "\u00e9", "aBc", "ab", "axc", " abc ", "xabcx", "AXC", "a\udce9c"]        # (a lone surrogate: what os.fsdecode gives for an undecodable file name)


def catalogue(tier):
    """-> list of (kind, [option dicts], [value specs])"""
    thorough = tier == "thorough"
    cat = []
    # ---- StringField
    if thorough:
        sopts = list(_prod(min_len=[None, 0, 1, 3], max_len=[None, 0, 1, 3], regex=[None, "a+", "^a.c$"],
                           choices=[None, ["a", "abc"]], transform_case=[None, "lower", "upper", "LOWER", "Upper"],
                           transform_strip=[None, True, "x"], required=[None, True]))
    else:
        sopts = []
        for case, strip, req in itertools.product([None, "lower", "upper"], [None, True, "x"], [None, True]):
            for mn, mx, rx, ch in [(None, None, None, None), (1, 3, None, None), (3, None, "a+", None),
                                   (None, 1, None, None), (0, 0, None, None), (None, 3, "^a.c$", None),
                                   (None, None, None, ["a", "abc"]), (1, None, "a+", ["a", "abc"]), (3, 3, None, None)]:
                sopts.append({"min_len": mn, "max_len": mx, "regex": rx, "choices": ch, "transform_case": case,
                              "transform_strip": strip, "required": req})
        # the option's own spelling is case-insensitive
        for case, strip in itertools.product(["LOWER", "Upper", "uPPER"], [None, True, "x"]):
            for mn, mx, rx, ch in [(None, None, None, None), (None, 3, "^a.c$", None), (None, None, None, ["a", "abc"])]:
                sopts.append({"min_len": mn, "max_len": mx, "regex": rx, "choices": ch, "transform_case": case, "transform_strip": strip})
    cat.append(("Str", [_clean(o) for o in sopts], STR_VALUES + WRONG))
    # ---- numbers
    nb = [None, -1, -0.5, 0, 0.5, 5, 10] if not thorough else [None, -1, -0.5, 0, 0.5, 5, 9.5, 10, 2 ** 70]
    ints = [-2, -1, 0, 1, 4, 5, 6, 10, 11, 2 ** 70, F(1.5), F(-0.5), F(5.0), F(10.9), F(-1.0), F("inf"), F("-inf"),
            F("nan"), F(1e300), "5", "-1", " 7 ", "1.5", "abc", "", "0x10", "1e3", "\u0661", "5\n", "+5", "1_0", "10", "11",
            "-2", "nan", "inf", True, False]
    nopts = [_clean(o) for o in _prod(min=nb, max=nb, required=[None, True])]
    cat.append(("Int", nopts, ints + WRONG))
    fl = ints + [F(0.0), F(-0.0), F(5.000001), F(4.999999), F(10.0), "5.0", "1e1", "-1.0", ".5", "5.", "1e400", "-inf",
                 10 ** 400]
    cat.append(("Float", nopts, fl + WRONG))
    popts = [{}, {"min": 0}, {"max": 1024}, {"min": 1024, "max": 2048}, {"required": True}, {"min": 0, "max": 0}]
    cat.append(("Port", popts, [0, 1, 2, 1023, 1024, 1025, 2048, 2049, 65535, 65536, -1, "80", "0", "65536", "http",
                                F(80.9), F("nan"), F(0.5), 2 ** 70] + WRONG))
    # ---- bool
    bv = ["t", "true", "1", "on", "yes", "y", "f", "false", "0", "off", "no", "n", "TRUE", "Yes", "oN", " true", "true ",
          "2", "maybe", "", "tru", "none", 2, F(0.0), F(-0.0), F(1e-9)]
    cat.append(("Bool", [{}, {"required": True}], bv + WRONG))
    # ---- addresses
    ipv = ["1.2.3.4", "0.0.0.0", "255.255.255.255", "256.1.1.1", "1.2.3", "1.2.3.4.5", "01.2.3.4", "1.2.3.4 ", " 1.2.3.4",
           "a.b.c.d", "", "1.2.3.-4", "1..2.3", "1.2.3.4/32", "\u0661.2.3.4", "0x1.2.3.4", "1.2.3.04", "127.1", "1.2.3.4.",
           ".1.2.3.4", "1.2.3.256", "1.2.3.1000", "1.2.3.+4", "10.0.0.1", "x10.0.0.1x", "999.0.0.1"]
    ipopts = [_clean(o) for o in _prod(transform_strip=[None, True, "x"], required=[None, True], min_len=[None, 8] if not thorough else [None, 7, 8, 15],
                                       max_len=[None, 8] if not thorough else [None, 7, 8, 15], transform_case=[None] if not thorough else [None, "upper"])]
    cat.append(("IPv4", ipopts, ipv + WRONG))
    pf = [None, 0, 8, 24, 32]
    netv = ["10.0.0.0/8", "10.0.0.0/24", "10.0.0.1/24", "0.0.0.0/0", "1.2.3.4/32", "1.2.3.4", "10.0.0.0/33", "10.0.0.0/",
            "10.0.0.0/a", "10.0.0.0/8/8", "/8", "10.0.0/8", "10.0.0.0/-1", "192.168.1.0/24", "128.0.0.0/1", "10.0.0.0/+8",
            "10.0.0.0/7", "10.0.0.0/9", "10.1.0.0/16", "10.0.0.0/23", "10.0.0.0/25", "10.0.0.0/31", "10.0.0.0/32",
            "1.0.0.0/0", " 10.0.0.0/8", "", "010.0.0.0/8", "256.0.0.0/8", "10.0.0.0 /8", "0.0.0.0/1", "0.0.0.0/32",
            "0.0.0.0"]
    netopts = [_clean(o) for o in _prod(min_prefix_len=pf, max_prefix_len=pf, transform_strip=[None, True],
                                        required=[None, True])]
    cat.append(("Net", netopts, netv + WRONG))
    hostv = ["localhost", "example.com", "a", "ab", "-ab", "a_b", "host!", "toolongnetbiosname!", "1.2.3.4", "01.2.3.4",
             "a b", "", "\u00e9", "ab.", "x" * 15, "x" * 16, "x" * 16 + "!", "known.example", "other.example", "nx.example",
             "a.b-c", "A1", "1a", ".a", "~", "{a}", "a/b", "a:b", "256.1.1.1", " ab", "10.1.2.3", "UPPER.Example", "a" * 300]
    hostopts = [_clean(o) for o in _prod(allow_ipv4=[None, True, False], resolve=[None, True],
                                         transform_strip=[None, True], required=[None, True], transform_case=[None, "lower"])]
    cat.append(("Host", hostopts, hostv + WRONG))
    urlv = ["http://a", "a:b", "://a", "", "http", "HTTP://x", "1http://x", "a+b.c-d://x", "a_b://x", "http:", "/path",
            "mailto:x", "x:/y", ":a", "a:", "a1:", "+a:b", "-a:b", ".a:b", "a/b:c", "http//a:b", "a.b", "x:y:z", "C:/dir",
            "https://example.com/p/a/t/h", "a" * 20 + ":x", "\u00e9:x", "a\u00e9:x"]
    urlopts = [_clean(o) for o in _prod(transform_strip=[None, True], required=[None, True], transform_case=[None, "upper"],
                                        max_len=[None, 8])]
    cat.append(("Url", urlopts, urlv + WRONG))
    # ---- bytes
    bytev = ["a", "", "\u00e9", "abc", Y(b"a"), Y(b"\xff\x00"), Y(b""), Y(bytes(range(256))), "\ud800", "QUJD", "4142"]
    cat.append(("Bytes", [{"encoding": e, **r} for e in ("base64", "hex") for r in ({}, {"required": True})], bytev + WRONG))
    # ---- file names (files are created in the job directory, which is also the cwd)
    filev = ["f.txt", "d", "missing", "sub/f2", "sub", "", "{ABS}/f.txt", "{ABS}/d", "{ABS}/missing", "./f.txt", "d/",
             "{ABS}/sub/../f.txt", " f.txt "]
    fileopts = []
    for ex in (None, True, False, "dir", "file"):
        for sd in (None, "{ABS}", "{ABS}/sub"):
            for st in (None, True):
                fileopts.append(_clean({"exists": ex, "startdir": sd, "transform_strip": st}))
    cat.append(("File", fileopts, filev + WRONG))
    # ---- secure / challenge / string presets / any
    algs = ["md5", "sha1", "sha224", "sha256", "sha384", "sha512"]
    chv = ["a", "", "\u00e9", "p" * 100, Y(b"a"), Y(b"\xff"), {"$": "digest"}, {"$": "digest-other"}]
    cat.append(("Challenge", [{"hash_algorithm": a, **r} for a in algs + ["SHA256"] for r in ({}, {"required": True})], chv + WRONG))
    secv = ["secret", "s", "\u00e9\u00e8", "x" * 40, "with \"quotes\" & <xml>", "a\nb", "k" * 16, "k" * 32, "\u00e9" * 8, "k" * 15 + "\x01", "k" * 31 + "\x10", "k" * 48]
    cat.append(("Secure", [{"method": m} for m in ("aes", "xor", "best")], secv + WRONG))
    lv = ["debug", "INFO", " Warning ", "error", "critical", "trace", "", "warn", "notice", " NOTICE "]
    cat.append(("LogLevel", [{}, {"levels": ["notice", "warn"]}, {"transform_case": "upper", "levels": ["NOTICE"]},
                             {"transform_strip": False}, {"required": True}, {"transform_case": "Lower"}, {"transform_case": "UPPER", "levels": ["NOTICE"]}], lv + WRONG))
    mv = ["development", "PRODUCTION", " production ", "test", "", "dev", " DEV"]
    cat.append(("AppMode", [{}, {"modes": ["dev", "test"]}, {"create_helpers": False, "modes": ["dev", "a-b"]},
                            {"required": True}], mv + WRONG))
    cat.append(("Any", [{}, {"required": True}], WRONG + ["x", [1, "a"], D(("k", [1]))]))
    # a pass-through custom validator attached: it must be handed (and must hand back) the normal form
    iv = {"validator": "identity"}
    cat.append(("Int", [dict(iv), dict(iv, min=0, max=9), dict(iv, required=True)], ints + WRONG))
    cat.append(("Float", [dict(iv, max=10)], fl + WRONG))
    cat.append(("Str", [dict(iv, transform_case="lower", transform_strip=True, max_len=3), dict(iv, transform_strip="x", min_len=1), dict(iv, choices=["a", "abc"], transform_case="lower")],
                STR_VALUES + WRONG))
    cat.append(("Bool", [dict(iv)], bv + WRONG))
    cat.append(("Bytes", [dict(iv, encoding="hex"), dict(iv)], bytev + WRONG))
    cat.append(("IPv4", [dict(iv, transform_strip=True)], ipv + WRONG))
    cat.append(("Net", [dict(iv, min_prefix_len=8)], netv + WRONG))
    cat.append(("Host", [dict(iv, transform_case="lower", transform_strip=True), dict(iv, resolve=True)], hostv + WRONG))
    cat.append(("Url", [dict(iv, transform_strip=True)], urlv + WRONG))
    cat.append(("LogLevel", [dict(iv)], lv + WRONG))
    cat.append(("Challenge", [dict(iv, hash_algorithm="md5")], chv + WRONG))
    cat.append(("Secure", [dict(iv, method="xor")], secv + WRONG))
    return cat


def container_catalogue(tier):
    """typed / untyped lists and dicts; items include kinds with a non-trivial on-disk form"""
    items = {
        None: [1, "a", None],
        "Any": [1, "a", None],
        "Int09": [1, "2", F(3.0), "x", 10, None],
        "StrNorm": ["a", " B ", 5, "toolong"],
        "Bytes64": [Y(b"ab"), "cd", Y(b"\xff\x00"), 5],
        "BytesHex": [Y(b"ab"), "cd", 5],
        "Challenge": ["pw", Y(b"pw2"), 5],
        "Secure": ["s3cret", "t0p"],
        "IPv4": ["1.2.3.4", "01.2.3.4"],
        "Bool": ["yes", 0, "maybe"],
    }
    specs = {
        None: None, "Any": {"k": "Any"},
        "Int09": {"k": "Int", "o": {"min": 0, "max": 9}},
        "StrNorm": {"k": "Str", "o": {"transform_case": "lower", "transform_strip": True, "max_len": 3}},
        "Bytes64": {"k": "Bytes", "o": {"encoding": "base64"}},
        "BytesHex": {"k": "Bytes", "o": {"encoding": "hex"}},
        "Challenge": {"k": "Challenge", "o": {"hash_algorithm": "md5"}},
        "Secure": {"k": "Secure", "o": {"method": "xor"}},
        "IPv4": {"k": "IPv4"},
        "Bool": {"k": "Bool"},
    }
    out = []
    for name, vals in items.items():
        lists = [[]] + [[v] for v in vals] + [[a, b] for a in vals[:3] for b in vals[:3]]
        lvals = lists + [T(*l) for l in lists[:6]] + WRONG
        strs = [v for v in vals if isinstance(v, str)]
        ints = [v for v in vals if isinstance(v, int) and not isinstance(v, bool)]
        for src in (strs[:2], strs[1:4], ints[:1], ints[:3]):
            if src:
                lvals.append({"$": "sibling-list", "items": src})
        for req in (None, True):
            out.append(("List[%s]" % name, {"k": "List", "item": specs[name], "o": _clean({"required": req})}, lvals))
        out.append(("List[%s]@v" % name, {"k": "List", "item": specs[name], "o": {"validator": "identity"}}, lvals))
        dvals = [D()] + [D(("k", v)) for v in vals] + [D(("k", vals[0]), (" K2 ", vals[1]))] + WRONG
        for req in (None, True):
            out.append(("Dict[Str,%s]" % name,
                        {"k": "Dict", "key": {"k": "Str", "o": {"transform_strip": True}} if name is not None else None,
                         "val": specs[name], "o": _clean({"required": req})}, dvals))
        out.append(("Dict[Str,%s]@v" % name, {"k": "Dict", "key": {"k": "Str", "o": {"transform_strip": True}} if name is not None else None,
                                              "val": specs[name], "o": {"validator": "identity"}}, dvals))
    # typed containers of typed containers whose leaves have a non-trivial on-disk form
    nest = [
        ("List[List[Bytes64]]", {"k": "List", "item": {"k": "List", "item": specs["Bytes64"]}, "o": {}},
         [[[Y(b"\xde\xad")]], [["cd"], [Y(b"ab"), "ef"]], [[]], [], [[5]], [5]]),
        ("List[List[BytesHex]]", {"k": "List", "item": {"k": "List", "item": specs["BytesHex"]}, "o": {}}, [[[Y(b"\xde\xad"), Y(b"dead")]], [[Y(b"ab")], []]]),
        ("List[List[Challenge]]", {"k": "List", "item": {"k": "List", "item": specs["Challenge"]}, "o": {}}, [[["pw"]], [["pw", Y(b"pw2")], ["x"]], [[5]]]),
        ("List[List[Secure]]", {"k": "List", "item": {"k": "List", "item": specs["Secure"]}, "o": {}}, [[["s3cret"]], [["s3cret", "t0p"], []]]),
        ("Dict[Str,List[BytesHex]]", {"k": "Dict", "key": {"k": "Str"}, "val": {"k": "List", "item": specs["BytesHex"]}, "o": {}},
         [D(("k", [Y(b"\xde\xad")])), D(("k", [Y(b"ab"), "cd"]), ("j", [])), D(("k", [5]))]),
        ("List[Dict[Str,Bytes64]]", {"k": "List", "item": {"k": "Dict", "key": {"k": "Str"}, "val": specs["Bytes64"]}, "o": {}},
         [[D(("k", Y(b"\xff\x00")))], [D(("k", "cd")), D()], [D(("k", 5))]]),
        ("List[List[Int09]]", {"k": "List", "item": {"k": "List", "item": specs["Int09"]}, "o": {}}, [[[1, "2"]], [[F(3.0)], []], [[10]], [["x"]]]),
    ]
    for name, spec, vals in nest:
        out.append((name, spec, vals + WRONG[:6]))
    # key fields whose on-disk form is a string (bytes as hex / base64) stay inside the formats' string-keyed domain
    for enc in ("hex", "base64"):
        kspec = {"k": "Bytes", "o": {"encoding": enc}}
        dvals = [D(), D((Y(b"\xde\xad"), 1)), D((Y(b"ab"), 1), ("cd", "2")), D((Y(b"\x00\xff"), 9), (Y(b""), 0)), D((5, 1))] + WRONG
        out.append(("Dict[Bytes-%s,Int09]" % enc, {"k": "Dict", "key": kspec, "val": specs["Int09"], "o": {}}, dvals))
        out.append(("Dict[Bytes-%s,Bytes64]" % enc, {"k": "Dict", "key": kspec, "val": specs["Bytes64"], "o": {}},
                    [D((Y(b"\xde\xad"), Y(b"\xbe\xef"))), D(("k", "v"))]))
    return out


def bounds(tier):
    cat = catalogue(tier)
    return {"field_kinds": [c[0] for c in cat], "option_combinations": {c[0]: len(c[1]) for c in cat},
            "values_per_kind": {c[0]: len(c[2]) for c in cat}, "containers": len(container_catalogue(tier))}


def jobs(tier):
    out = []
    for kind, opts, vals in catalogue(tier):
        n = max(1, min(16, len(opts) // 40))
        for c in range(n):
            chunk = opts[c::n]
            if chunk:
                out.append({"name": "%s%s/%02d" % (kind, "@v" if chunk[0].get("validator") else "", c), "kind": kind, "opts": chunk, "vals": vals})
    for name, spec, vals in container_catalogue(tier):
        out.append({"name": "%s/%s" % (name, "req" if spec["o"].get("required") else ("v" if spec["o"].get("validator") else "opt")), "spec": spec, "vals": vals})
    for itemkind in ("schema", "ctype"):
        out.append({"name": "List[%s-with-encoded-fields]" % itemkind, "cfgitems": itemkind})
    out.append({"name": "independence", "independence": True})
    return out


INDEP = [{"k": "LogLevel", "o": {}}, {"k": "AppMode", "o": {}}, {"k": "Str", "o": {"choices": ["a", "abc"]}},
         {"k": "LogLevel", "o": {"levels": ["notice", "warn"]}}, {"k": "AppMode", "o": {"modes": ["dev", "test"]}}]
INDEP_VALUES = ["zzextra", "debug", "INFO", "production", "development", "a", "abc", "notice", "dev", "", "x"]


def check_independence(ctx, only=None):
    """what a field accepts is decided by its own declaration: a field object built before, and one built after, another
    field object of the same class had its (public) list attributes extended in place answer like the reference"""
    for i, spec in enumerate(INDEP):
        if only is not None and only != i:
            continue
        cfg0, early = _mkworld(spec)
        import copy
        _cfg, custom = _mkworld(copy.deepcopy(spec))      # its own option lists: the field may keep the list it was given
        for attr in ("choices", "levels", "modes"):
            lst = getattr(custom, attr, None)
            if isinstance(lst, list):
                lst.append("zzextra")
        case = {"independence": i, "job": "independence"}
        for v in INDEP_VALUES:
            ref = R.ref_validate(spec, v)
            lib = _try(lambda: early.validate(cfg0, v))
            ctx.transitions += 1
            ctx.case(("independence", i, v, "early"), "independence:%s" % lib[0], True)
            if ref[0] != "undef" and (lib[0] == "ok") != (ref[0] == "ok"):
                ctx.violation("C05|%s|independence|built-before" % _optkey(spec),
                              "%s built before another field object was customised in place now %s %r (declared constraint: %s)"
                              % (_optkey(spec), "accepts" if lib[0] == "ok" else "rejects", v, ref[1] if ref[0] == "rej" else "valid"), case)
            # a field object built afterwards
            check_pair(ctx, spec, v, case)
    ctx.traces += 1


# ---------------------------------------------------------------------------------------------
def _setup_files(tmp):
    open(os.path.join(tmp, "f.txt"), "w").write("x")
    os.makedirs(os.path.join(tmp, "d"), exist_ok=True)
    os.makedirs(os.path.join(tmp, "sub"), exist_ok=True)
    open(os.path.join(tmp, "sub", "f2"), "w").write("y")


def _subst(x, tmp):
    if isinstance(x, str):
        return x.replace("{ABS}", tmp)
    if isinstance(x, dict):
        return {k: _subst(v, tmp) for k, v in x.items()}
    if isinstance(x, list):
        return [_subst(v, tmp) for v in x]
    return x


def run_job(job, ctx):
    _setup_files(ctx.tmp)
    single = job.get("single")
    if single and "cfgitems" in single:
        check_config_items(ctx, single)
        return
    if single and "independence" in single:
        check_independence(ctx, single["independence"])
        return
    if job.get("independence"):
        check_independence(ctx)
        return
    if single:
        check_pair(ctx, _subst(single["spec"], ctx.tmp), _subst(single["value"], ctx.tmp), single)
        return
    if "cfgitems" in job:
        check_config_items(ctx, job)
        return
    if "spec" in job:
        for v in job["vals"]:
            check_pair(ctx, job["spec"], v, {"spec": job["spec"], "value": v, "job": job["name"]})
        ctx.sample({"field": job["spec"], "values": len(job["vals"])})
        return
    for o in job["opts"]:
        spec = {"k": job["kind"], "o": o}
        for v in job["vals"]:
            check_pair(ctx, _subst(spec, ctx.tmp), _subst(v, ctx.tmp), {"spec": spec, "value": v, "job": job["name"]})
    ctx.sample({"field": {"k": job["kind"], "o": job["opts"][-1]}, "value": job["vals"][0]})


DOC_FORMATS = ["json", "xml", "yaml", "bson", "pickle"]
FIXED_KEY = b"kks" + bytes((i * 11 + 5) % 256 for i in range(29))      # begins like several of the secrets: their xor form begins with NUL bytes


def _mkworld(spec):
    import cincoconfig as cc
    from mc import core
    dk = core.default_keyfile()
    if not os.path.exists(dk):
        with open(dk, "wb") as fh:
            fh.write(FIXED_KEY)
    schema = cc.Schema()
    field = R.mk_field(spec)
    schema.f = field
    schema.gs = cc.ListField(cc.StringField())          # other typed lists of the same configuration (sources of proxies)
    schema.gi = cc.ListField(cc.IntField())
    cfg = schema()
    return cfg, field


def _resolver(field, cfg=None):
    def resolve(s):
        import cincoconfig as cc
        if s["$"] == "sibling-list":
            # the validated value of another typed list field of the same configuration
            items = [V.dec(x) for x in s["items"]]
            key = "gi" if all(isinstance(x, int) and not isinstance(x, bool) for x in items) else "gs"
            setattr(cfg, key, items)
            return getattr(cfg, key)
        if s["$"] == "digest":
            return cc.DigestValue.create("zz", field.algorithm)
        if s["$"] == "digest-other":
            import hashlib
            return cc.DigestValue.create("zz", hashlib.sha1)
        raise ValueError(s)
    return resolve


def _try(fn):
    try:
        return ("ok", fn())
    except Exception as exc:  # noqa
        return ("rej", exc)


def _shape(v):
    if isinstance(v, dict) and v.get("$") in ("digest", "digest-other", "sibling-list"):
        return v["$"]
    try:
        d = V.dec(v, lambda s: "digest")
    except Exception:
        return "?"
    return type(d).__name__


def _optkey(spec):
    o = spec.get("o", {})
    parts = []
    for k in sorted(o):
        v = o[k]
        if k == "startdir":
            v = "dir"
        parts.append("%s=%s" % (k, v))
    extra = ""
    if spec["k"] == "List":
        extra = "<%s>" % ((spec.get("item") or {}).get("k"))
    if spec["k"] == "Dict":
        extra = "<%s,%s>" % ((spec.get("key") or {}).get("k"), (spec.get("val") or {}).get("k"))
    return "%s%s(%s)" % (spec["k"], extra, ",".join(parts))


def check_pair(ctx, spec, vspec, case):
    cfg, field = _mkworld(spec)
    res = _resolver(field, cfg)
    value = V.dec(vspec, res)
    ref = R.ref_validate(spec, value)
    if ref[0] == "undef":
        ctx.skipped += 1
        return
    lib = _try(lambda: field.validate(cfg, value))
    ctx.transitions += 1
    ctx.states += 1
    key = (repr(spec), repr(vspec))
    fpbase = "C05|%s|value=%s" % (_optkey(spec), _shape(vspec))

    def bad(what, msg):
        ctx.violation(fpbase + "|" + what, "%s value %s: %s" % (_optkey(spec), V.show(value, 60), msg), case)

    if spec["k"] in ("List", "Dict") and _plain_encoded(spec) and type(value) in (list, dict):
        # the same candidate arriving as an on-disk value: decoding it and validating the decoded container must
        # accept exactly what validation of the candidate itself accepts (item kinds whose on-disk form is the value)
        fresh = V.dec(vspec, res)
        dec = _try(lambda: field.to_python(cfg, fresh))
        after = _try(lambda: field.validate(cfg, dec[1])) if dec[0] == "ok" else dec
        ctx.transitions += 2
        if ref[0] == "rej" and after[0] == "ok" and (type(value) is list) == (spec["k"] == "List"):
            ctx.violation(fpbase + "|accepts-invalid|decoded", "%s on-disk value %s: decoded and validated as %s but violates the declared constraint (%s)"
                          % (_optkey(spec), V.show(value, 60), V.show(after[1], 60), ref[1]), case)
        elif ref[0] == "ok" and (after[0] != "ok" or not R.matches(after[1], ref[1])):
            ctx.violation(fpbase + "|decoded-differs", "%s on-disk value %s: decoding and validating gives %s, validation of the value itself %s"
                          % (_optkey(spec), V.show(value, 60), V.show(after[1], 60), V.show(ref[1], 60)), case)
    if ref[0] == "rej":
        trivial = ref[1] in ("not a string", "type", "not a boolean", "not bytes", "not a list", "not a dict", "not a secret")
        ctx.case(key, "reject:" + ref[1], not trivial)
        if lib[0] == "ok":
            bad("accepts-invalid", "accepted as %s but violates the declared constraint (%s)" % (V.show(lib[1], 60), ref[1]))
        return
    # reference accepts
    norm = ref[1]
    changed = not (isinstance(norm, (R.DigestOf, R.Same)) or V.plain(norm) == V.plain(value))
    ctx.case(key, "accept" + (":normalised" if changed else ""), changed or isinstance(norm, R.DigestOf))
    if lib[0] == "rej":
        bad("rejects-valid", "rejected (%r) but meets every declared constraint; expected %s" % (lib[1], V.show(norm, 60)))
        return
    r1 = lib[1]
    if not R.matches(r1, norm):
        bad("normal-form", "returned %s, expected normal form %s" % (V.show(r1, 60), V.show(norm, 60)))
        return
    if spec["k"] == "Secure" and value == "":
        return
    # same value each time (fresh argument object)
    v2 = V.dec(vspec, res)
    norm2 = R.ref_validate(spec, v2)[1]  # fresh argument object (a fresh DigestValue for digest arguments)
    r1b = _try(lambda: field.validate(cfg, v2))
    if r1b[0] != "ok" or not R.matches(r1b[1], norm2):
        bad("not-repeatable", "second validation of the same input gave %s" % V.show(r1b[1], 60))
        return
    if r1 is None:
        return
    # idempotent
    r2 = _try(lambda: field.validate(cfg, r1))
    if r2[0] != "ok":
        bad("idempotence-rejects", "validating the accepted result %s again raised %r" % (V.show(r1, 60), r2[1]))
        return
    if not _same(r2[1], r1):
        bad("idempotence-changes", "validating the accepted result %s again gave %s" % (V.show(r1, 60), V.show(r2[1], 60)))
        return
    # on-disk form and back
    b = _try(lambda: field.to_basic(cfg, r1))
    if b[0] != "ok":
        bad("to_basic-raises", "to_basic(%s) raised %r" % (V.show(r1, 60), b[1]))
        return
    if not R.is_plain_data(b[1]) and spec["k"] not in ("Any",) and not _untyped(spec):
        bad("to_basic-not-plain", "to_basic(%s) = %s is not plain data" % (V.show(r1, 60), V.show(b[1], 60)))
        return
    p = _try(lambda: field.to_python(cfg, b[1]))
    if p[0] != "ok":
        bad("to_python-raises", "to_python(to_basic(%s)) raised %r" % (V.show(r1, 60), p[1]))
        return
    if not _same(p[1], r1):
        bad("roundtrip", "to_python(to_basic(%s)) = %s" % (V.show(r1, 60), V.show(p[1], 60)))
        return
    # ... and the on-disk form as it really travels: written into a document of each format, read back, decoded
    if R.is_plain_data(b[1]) and b[1] is not None:
        import cincoconfig as cc
        from mc.props.c04 import representable
        for fmt in DOC_FORMATS:
            doc_tree = {"v": b[1]}
            if not representable(doc_tree, fmt):
                continue
            ctx.transitions += 1
            back = _try(lambda: cc.ConfigFormat.get(fmt).loads(cfg, cc.ConfigFormat.get(fmt).dumps(cfg, doc_tree))["v"])
            via = _try(lambda: field.to_python(cfg, back[1])) if back[0] == "ok" else back
            if via[0] != "ok":
                bad("document-roundtrip-raises|" + fmt, "the on-disk form %s written to and read from a %s document, then decoded, raised %r" % (V.show(b[1], 60), fmt, via[1]))
                return
            if not _same(via[1], r1):
                bad("document-roundtrip|" + fmt, "%s -> on-disk %s -> %s document -> %s" % (V.show(r1, 60), V.show(b[1], 60), fmt, V.show(via[1], 60)))
                return
    r3 = _try(lambda: field.validate(cfg, p[1]))
    ctx.transitions += 5   # validate(again), validate(result), to_basic, to_python, validate
    ctx.states += 2        # the normal form and its on-disk form
    ctx.traces += 1
    if r3[0] != "ok" or not _same(r3[1], r1):
        bad("roundtrip-revalidate", "validate(to_python(to_basic(%s))) gave %s" % (V.show(r1, 60), V.show(r3[1], 60)))


def _plain_encoded(spec):
    kinds = ("Int", "Str", "IPv4", "Bool", "Any", None)
    subs = [spec.get("item")] if spec["k"] == "List" else [spec.get("key"), spec.get("val")]
    return all((x or {}).get("k") in kinds for x in subs)


def _untyped(spec):
    if spec["k"] == "List":
        return not spec.get("item") or spec["item"].get("k") == "Any"
    if spec["k"] == "Dict":
        return not spec.get("key") and not spec.get("val") or (spec.get("val") or {}).get("k") == "Any"
    return False


def _same(a, b):
    return V.plain(a) == V.plain(b)


def check_config_items(ctx, job):
    """typed list whose items are configurations holding fields with a non-trivial on-disk form, directly in the item
    and one sub-schema deeper: to_python(to_basic(x)) must give equal items, and validating them again must accept"""
    import cincoconfig as cc
    import hashlib
    item = cc.Schema()
    item.b = cc.BytesField()
    item.h = cc.BytesField("hex")
    item.ch = cc.ChallengeField("md5")
    item.sec = cc.SecureField(method="xor")
    item.n = cc.IntField()
    item.lb = cc.ListField(cc.BytesField())
    item.inner.b = cc.BytesField()
    item.inner.ch = cc.ChallengeField("sha1")
    item.inner.sec = cc.SecureField(method="aes")
    s = cc.Schema()
    typ = cc.make_type(item, "ItemWithEncodedFields") if job["cfgitems"] == "ctype" else item
    s.f = cc.ListField(typ)
    case = {"cfgitems": job["cfgitems"], "job": job.get("name", "cfgitems")}
    for n_items in (0, 1, 2):
        # the owning configuration names its own key file: items decode their secrets through their owner
        cfg = cc.Config(s, key_filename=os.path.join(ctx.tmp, "c05-items.key"))
        field = s._fields["f"]
        items = []
        for i in range(n_items):
            it = typ() if job["cfgitems"] == "ctype" else item()
            it.b = b"\xff\x00" + bytes([i])
            it.h = b"\xde\xad"
            it.ch = "pw-%d" % i
            it.sec = "secret-%d" % i
            it.n = i
            it.lb = [b"\x01", b"ab"]
            it.inner.b = b"inner-\xfe"
            it.inner.ch = "ipw"
            it.inner.sec = "inner-secret-%d" % i
            items.append(it)
        ctx.transitions += 1
        ctx.states += 1
        fp = "C05|List<%s-with-encoded-fields>|" % job["cfgitems"]

        def bad(what, msg):
            ctx.violation(fp + what, "%d item(s): %s" % (n_items, msg), case, size=n_items)
        try:
            r1 = field.validate(cfg, items)
            want = [cc.asdict(x) for x in r1]
            basic = field.to_basic(cfg, r1)
        except Exception as exc:  # noqa
            ctx.case((job["cfgitems"], n_items), "cfgitems:raises", True)
            bad("validate-or-to_basic-raises", "raised %r" % (exc,))
            continue
        if not R.is_plain_data(basic):
            bad("to_basic-not-plain", "to_basic is not plain data: %s" % V.show(basic, 100))
        try:
            back = field.to_python(cfg, basic)
            got = [cc.asdict(x) for x in back]
        except Exception as exc:  # noqa
            ctx.case((job["cfgitems"], n_items), "cfgitems:to_python-raises", True)
            bad("to_python-raises", "to_python(to_basic(items)) raised %r" % (exc,))
            continue
        ctx.case((job["cfgitems"], n_items), "cfgitems:%d" % n_items, n_items > 0)
        if V.plain(got) != V.plain(want):
            diff = [k for a, b in zip(got, want) for k in a if V.plain(a[k]) != V.plain(b[k])]
            bad("roundtrip|" + ",".join(sorted(set(diff))), "items come back different at %s: %s" % (sorted(set(diff)), V.show(got, 160)))
            continue
        try:
            again = field.validate(cfg, back)
            if V.plain([cc.asdict(x) for x in again]) != V.plain(want):
                bad("roundtrip-revalidate", "validating the decoded items changes them")
        except Exception as exc:  # noqa
            bad("roundtrip-revalidate-raises", "validating the decoded items raised %r" % (exc,))
    ctx.traces += 1
