"""
C20 - generated type stubs are valid Python that declares every field and method.

Exhaustive over (a) every subset of a 6-group partition of the built-in field kinds x the three kinds
of argument generate_stub accepts (Schema, Config, ConfigType class) and (b) every instance-method
signature shape in the bound (positional count x trailing default x *args x keyword-only count and
defaults x **kwargs x parameter annotation x return annotation).  The stub is parsed with `ast` and
compared with a reference derived from the schema and from inspect.signature.
"""
import ast
import contextlib
import inspect
import io
import os
import collections.abc
import enum
import fractions
import itertools
import typing

PROP = "C20"
LEVEL = "model_checking"
RULE = ("every subset of the field-kind partition x target kind, and every signature shape in the bound; non-trivial = at "
        "least one field group or a non-empty parameter list; distinct = distinct (subset, target) / signature shapes")
ASSUMPTIONS = ["ast.parse decides syntactic validity", "inspect.signature is the reference for parameter names and kinds",
               "default values in the stub are not demanded; the configuration parameter is a named positional"]

GROUPS = ["scalars", "secure", "containers", "nested", "virtual", "misc"]
BAD_ENV = "C20_BAD_INT"
LOUD = [False]        # default factories talk only while a stub is being generated


class Marker:
    pass


def build_schema(groups, dynamic=False):
    """-> (schema, expected attribute keys, persistent keys, method keys)"""
    import cincoconfig as cc
    s = cc.Schema(dynamic=dynamic)
    attrs, persistent = [], []

    def add(key, field, virtual=False):
        if key.startswith("_"):
            s[key] = field          # (by item assignment a key may begin with an underscore)
        else:
            setattr(s, key, field)
        attrs.append(key)
        if not virtual:
            persistent.append(key)
    counter = [0]

    def factory():
        counter[0] += 1
        if LOUD[0]:
            print("default factory called")
        return 3
    s._verif_counter = counter
    if "scalars" in groups:
        add("s_factory", cc.IntField(default=factory))          # a default factory with a visible side effect
        add("s_envint", cc.IntField(env=BAD_ENV))               # bound to a variable that will hold an invalid value
        shared = cc.IntField()
        add("s_alias_a", shared); add("s_alias_b", shared)      # one field object under two keys
        add("s_str", cc.StringField(default="x")); add("s_int", cc.IntField()); add("s_float", cc.FloatField())
        add("s_port", cc.PortField()); add("s_bool", cc.BoolField()); add("s_ip", cc.IPv4AddressField())
        add("s_net", cc.IPv4NetworkField()); add("s_host", cc.HostnameField()); add("s_url", cc.UrlField())
        add("s_file", cc.FilenameField()); add("s_bytes", cc.BytesField()); add("s_log", cc.LogLevelField())
    if "secure" in groups:
        add("c_chal", cc.ChallengeField("md5")); add("c_sec", cc.SecureField())
    if "containers" in groups:
        item = cc.Schema(); item.v = cc.IntField()
        ityp = cc.make_type(item, "ItemT")
        add("l_any", cc.ListField()); add("l_int", cc.ListField(cc.IntField())); add("l_str", cc.ListField(cc.StringField()))
        add("l_schema", cc.ListField(item)); add("l_type", cc.ListField(ityp)); add("l_bytes", cc.ListField(cc.BytesField()))
        add("d_any", cc.DictField()); add("d_typed", cc.DictField(cc.StringField(), cc.IntField()))
    if "nested" in groups:
        s.sub.x = cc.IntField()
        s.sub.deep.y = cc.StringField()
        attrs.append("sub"); persistent.append("sub")
        t = cc.Schema(); t.q = cc.IntField()
        add("ctype", cc.make_type(t, "SubT"))
    if "virtual" in groups:
        add("v_ro", cc.VirtualField(lambda cfg: 1), virtual=True)
        add("v_rw", cc.VirtualField(lambda cfg: 1, lambda cfg, v: None), virtual=True)
        setattr(s, "mode", cc.ApplicationModeField(default="production"))
        attrs.append("mode"); persistent.append("mode")
        for m in ("development", "production"):
            attrs.append("is_%s_mode" % m)
        add("flag", cc.FeatureFlagField(default=True))
    if "misc" in groups:
        add("m_any", cc.AnyField()); add("m_inc", cc.IncludeField())
        add("m_fraction", cc.NumberField(fractions.Fraction))      # a number class whose metaclass is not `type`
        add("_token", cc.StringField())
        add("m_named", cc.IntField(name="Friendly Name"))        # a display name is not an identifier and not the key
        add("gr\u00f6\u00dfe", cc.IntField())                       # keys are identifiers, not necessarily ASCII
        add("\u540d\u524d", cc.StringField())
        f = cc.Field()
        f.storage_type = LocalMarker
        add("m_local", f)
    return s, attrs, persistent


def _local_class():
    class LocalMarker:           # a class defined inside a function body
        pass
    return LocalMarker


LocalMarker = _local_class()


UserId = typing.NewType("UserId", int)


class Colour(enum.Enum):
    RED = 1
    BLUE = 2
PARAM_ANN = {"none": "", "int": ": int", "class": ": Marker", "localclass": ": LocalMarker", "strlit": ": 'str'", "generic": ": typing.List[int]",
             "builtin-generic": ": list[int]", "optional": ": typing.Optional[Marker]",
             # typing special forms that carry no __origin__
             "noreturn": ": typing.NoReturn", "anystr": ": typing.AnyStr", "bare-optional": ": typing.Optional", "literalstring": ": typing.LiteralString",
             "never": ": typing.Never", "any": ": typing.Any", "callable": ": typing.Callable[[int], str]",
             # classes whose metaclass is not `type`
             "enum": ": Colour", "abc": ": collections.abc.Mapping", "fraction": ": fractions.Fraction",
             # generics with several string (forward) references
             "two-forward": ": typing.Dict['Key', 'Value']", "callable-forward": ": typing.Callable[['V', 'V'], 'V']"}
RET_ANN = {"absent": "", "int": " -> int", "none": " -> None", "strlit": " -> 'str'", "optional": " -> typing.Optional[int]",
           "generic": " -> typing.Dict[str, int]", "class": " -> Marker", "localclass": " -> LocalMarker", "enum": " -> Colour", "abc": " -> collections.abc.Sequence", "two-forward": " -> typing.Tuple['A', 'B']",
           # objects the generator has no rendering for: the stub stays valid (the annotation may be left out)
           "union604": " -> int | None", "newtype": " -> UserId"}


def signatures(tier):
    out = []
    kwonly_opts = [(0, False), (1, False), (1, True), (2, False), (2, True)]
    anns = list(itertools.product(PARAM_ANN, RET_ANN)) if tier == "thorough" else \
        [(p, "absent") for p in PARAM_ANN] + [("none", r) for r in RET_ANN] + [("int", "int"), ("generic", "optional")]
    for npos, dflt, star, (nkw, kwd), starkw in itertools.product((0, 1, 2), (False, True), (False, True), kwonly_opts, (False, True)):
        if dflt and npos == 0:
            continue
        for pann, rann in anns:
            out.append({"npos": npos, "dflt": dflt, "star": star, "nkw": nkw, "kwd": kwd, "starkw": starkw, "pann": pann, "rann": rann})
            if (star or starkw) and pann != "none":
                # the variadic parameters carry the annotation too
                out.append({"npos": npos, "dflt": dflt, "star": star, "nkw": nkw, "kwd": kwd, "starkw": starkw, "pann": pann, "rann": rann, "starann": True})
    return out


def make_func(sig, name="meth"):
    parts = ["cfg"]
    ann = PARAM_ANN[sig["pann"]]
    for i in range(sig["npos"]):
        p = "p%d%s" % (i, ann)
        if sig["dflt"] and i == sig["npos"] - 1:
            p += " = None"
        parts.append(p)
    if sig["star"]:
        parts.append("*rest" + (ann if sig.get("starann") else ""))
    elif sig["nkw"]:
        parts.append("*")
    for i in range(sig["nkw"]):
        p = "k%d%s" % (i, ann)
        if sig["kwd"] and i == sig["nkw"] - 1:
            p += " = None"
        parts.append(p)
    if sig["starkw"]:
        parts.append("**extra" + (ann if sig.get("starann") else ""))
    src = "def %s(%s)%s:\n    return 0\n" % (name, ", ".join(parts), RET_ANN[sig["rann"]])
    ns = {"typing": typing, "Marker": Marker, "LocalMarker": LocalMarker, "Colour": Colour, "collections": collections, "fractions": fractions, "UserId": UserId}
    exec(src, ns)
    return ns[name], src


def bounds(tier):
    return {"field_group_subsets": 2 ** len(GROUPS), "targets": ["Schema", "Config", "ConfigType", "DynamicConfig (with run-time fields)"], "signatures": len(signatures(tier))}


def jobs(tier):
    out = []
    subsets = [list(c) for r in range(len(GROUPS) + 1) for c in itertools.combinations(GROUPS, r)]
    for i in range(8):
        out.append({"name": "fields/%d" % i, "kind": "fields", "subsets": subsets[i::8]})
    sigs = signatures(tier)
    n = 32 if tier == "thorough" else 8
    for i in range(n):
        out.append({"name": "sigs/%02d" % i, "kind": "sigs", "sigs": sigs[i::n]})
    return out


def run_job(job, ctx):
    single = job.get("single")
    if single:
        if single["kind"] == "fields":
            check_fields(ctx, single["groups"], single["target"])
        else:
            check_sig(ctx, single["sigs"])
        return
    if job["kind"] == "fields":
        for groups in job["subsets"]:
            for target in ("Schema", "Config", "ConfigType", "DynamicConfig", "Nested", "NestedConfig", "Nested2"):
                check_fields(ctx, groups, target)
        ctx.sample({"field_groups": job["subsets"][-1], "targets": ["Schema", "Config", "ConfigType", "DynamicConfig"]})
    else:
        # several signatures per schema: chunks of 3 methods, and each alone
        sigs = job["sigs"]
        for s in sigs:
            check_sig(ctx, [s])
        for i in range(0, len(sigs), 3):
            check_sig(ctx, sigs[i:i + 3])
        ctx.sample({"signature": sigs[-1], "source": make_func(sigs[-1])[1]})


def schema_snap(schema):
    import cincoconfig as cc
    out = []
    for path, _, field in cc.get_all_fields(schema):
        items = []
        for k, v in sorted(vars(field).items()):
            if isinstance(v, (str, int, float, bool, type(None), tuple, list)):
                items.append((k, repr(v)))
            else:
                items.append((k, id(v)))
        out.append((path, type(field).__name__, tuple(items)))
    return tuple(out)


def gen(target_obj, name):
    import cincoconfig as cc
    buf = io.StringIO()
    with contextlib.redirect_stdout(buf):
        LOUD[0] = True
        try:
            stub = cc.generate_stub(target_obj, name) if name else cc.generate_stub(target_obj)
            res = ("ok", stub)
        except Exception as exc:  # noqa
            res = ("raise", exc)
        finally:
            LOUD[0] = False
    return res, buf.getvalue()


def parse_stub(stub):
    """-> (classdefs, annassign names, init params, {method: FunctionDef})"""
    mod = ast.parse(stub)
    classes = [n for n in ast.walk(mod) if isinstance(n, ast.ClassDef)]
    if len(classes) != 1:
        return classes, None, None, None
    body = classes[0].body
    anns = [n.target.id for n in body if isinstance(n, ast.AnnAssign) and isinstance(n.target, ast.Name)]
    funcs = {n.name: n for n in body if isinstance(n, ast.FunctionDef)}
    init = funcs.pop("__init__", None)
    return classes, anns, init, funcs


def fparams(fn):
    a = fn.args
    return {
        "pos": [x.arg for x in a.posonlyargs + a.args],
        "vararg": a.vararg.arg if a.vararg else None,
        "kwonly": [x.arg for x in a.kwonlyargs],
        "kwarg": a.kwarg.arg if a.kwarg else None,
    }


def check_fields(ctx, groups, target):
    import cincoconfig as cc
    schema, attrs, persistent = build_schema(groups, dynamic=(target == "DynamicConfig"))
    case = {"kind": "fields", "groups": groups, "target": target, "job": "fields"}
    fp = "C20|fields|%s|" % target

    def bad(what, msg):
        ctx.violation(fp + what, "field groups %s via %s: %s" % (groups, target, msg), case, size=len(groups))
    import contextlib as _cl
    with _cl.redirect_stdout(io.StringIO()):
        cfg = schema()
    os.environ[BAD_ENV] = "not-a-number"         # from here on building a configuration of this schema would fail
    calls0 = schema._verif_counter[0]
    if target == "Schema":
        obj, name = schema, "Stub"
    elif target == "DynamicConfig":
        # a configuration of a dynamic schema that carries fields of its own, added at run time
        cfg.runtime_extra = 5
        cfg.runtime_other = "x"
        obj, name = cfg, "Stub"
    elif target in ("Nested", "NestedConfig", "Nested2"):
        # a sub-schema that is mounted in another schema (one and two levels down), and the sub-configuration built from it
        if "nested" not in groups:
            os.environ.pop(BAD_ENV, None)
            return
        if target == "Nested2":
            obj, name, attrs, persistent = schema.sub.deep, "Stub", ["y"], ["y"]
        else:
            obj, name, attrs, persistent = (schema.sub if target == "Nested" else cfg.sub), "Stub", ["x", "deep"], ["x", "deep"]
    elif target == "Config":
        obj, name = cfg, "Stub"
    else:
        obj, name = cc.make_type(schema, "StubT"), None
    snap0 = schema_snap(schema)
    vars0 = set(vars(cfg))
    data0 = repr(cc.asdict(cfg))
    ctx.states += 1
    ctx.transitions += 1
    # a call the generator refuses (no class name can be derived from a schema / a configuration) has no side effect either
    for refused in (schema, cfg, schema.sub if "sub" in schema._fields else schema):
        try:
            with contextlib.redirect_stdout(io.StringIO()):
                cc.generate_stub(refused)
        except Exception:  # noqa
            pass
    if schema_snap(schema) != snap0 or set(vars(cfg)) != vars0 or repr(cc.asdict(cfg)) != data0:
        bad("refused-call-side-effect", "a generate_stub call without a class name changed the schema or the configuration: fields now %s" % sorted(schema._fields))
        return
    res, out = gen(obj, name)
    res_again, out_again = gen(obj, name)
    out += out_again
    if res[0] == "ok" and res_again != res:
        bad("not-repeatable", "a second generation gives a different stub")
    ctx.case((tuple(groups), target), "fields:%s" % res[0], bool(groups))
    os.environ.pop(BAD_ENV, None)
    if out:
        bad("stdout", "generate_stub wrote to standard output: %r" % out[:80])
    if schema._verif_counter[0] != calls0:
        bad("default-factory-called", "generate_stub evaluated a callable default %d time(s)" % (schema._verif_counter[0] - calls0))
    if res[0] == "raise":
        bad("raises-" + type(res[1]).__name__ + "|" + _blame(groups), "generate_stub raised %r" % (res[1],))
        return
    stub = res[1]
    try:
        classes, anns, init, funcs = parse_stub(stub)
    except SyntaxError as exc:
        bad("syntax", "stub is not valid Python: %s\n%s" % (exc, stub))
        return
    if len(classes) != 1:
        bad("class-count", "stub declares %d classes" % len(classes))
        return
    if classes[0].name != (name or "StubT"):
        bad("class-name", "class is named %s" % classes[0].name)
    if target == "DynamicConfig":
        anns = [a for a in anns if a not in ("runtime_extra", "runtime_other")]       # whether run-time fields are declared is not judged
        if init is not None:
            init.args.args = [a for a in init.args.args if a.arg not in ("runtime_extra", "runtime_other")]
    if sorted(anns) != sorted(attrs) or len(set(anns)) != len(anns):
        missing = sorted(set(attrs) - set(anns)); extra = sorted(set(anns) - set(attrs))
        bad("attributes", "annotated attributes missing %s, unexpected %s" % (missing, extra))
    if init is None:
        bad("no-init", "no __init__ in the stub")
    else:
        p = fparams(init)
        if p["pos"] != ["self"] + persistent or p["vararg"] or p["kwonly"] or p["kwarg"]:
            bad("init-params", "__init__ parameters %s, expected self + %s" % (p, persistent))
    if funcs:
        bad("unexpected-methods", "methods %s in a schema without instance methods" % sorted(funcs))
    if schema_snap(schema) != snap0:
        bad("schema-changed", "generate_stub changed the schema")
    if target == "DynamicConfig":
        other = schema()
        if "runtime_extra" in other or "runtime_extra" in schema._fields or "runtime_extra" in [k for k, _ in other]:
            bad("schema-changed|runtime-field", "after generating a stub from a configuration, its run-time fields belong to the schema / to new configurations")
        again = gen(schema, "Stub")[0]
        if again[0] == "ok" and "runtime_extra" in again[1]:
            bad("schema-changed|schema-stub", "a stub generated from the schema now declares another configuration's run-time field")
    # the schema grows after a stub was generated: the next stub must describe the schema as it is now
    if target not in ("Config", "DynamicConfig", "Nested", "NestedConfig", "Nested2"):
        schema.late_field = cc.IntField()
        schema.late_virtual = cc.VirtualField(lambda c: 0)
        cc.instance_method(schema, "late_method")(lambda c, a, *rest, **kw: None)
        res_late, out_late = gen(obj, name)
        if res_late[0] != "ok":
            bad("late-raises", "after adding fields, generate_stub raised %r" % (res_late[1],))
        else:
            try:
                _, anns2, init2, funcs2 = parse_stub(res_late[1])
                if "late_field" not in (anns2 or []) or "late_virtual" not in (anns2 or []) or "late_method" not in (funcs2 or {}) \
                        or init2 is None or "late_field" not in fparams(init2)["pos"] or "late_virtual" in fparams(init2)["pos"]:
                    bad("stale-after-schema-change", "a stub generated after fields were added does not declare them")
            except SyntaxError as exc:
                bad("late-syntax", "stub after adding fields is not valid Python: %s" % exc)
        return
    if set(vars(cfg)) != vars0 or repr(cc.asdict(cfg)) != data0:
        bad("config-changed", "generate_stub changed the configuration (attributes %s)" % sorted(set(vars(cfg)) ^ vars0))
    ctx.traces += 1


def _blame(groups):
    return "+".join(groups)


def V_show(x):
    r = repr(x)
    return r if len(r) < 300 else r[:300] + "..."


def check_sig(ctx, sigs):
    import cincoconfig as cc
    schema = cc.Schema()
    schema.x = cc.IntField(default=1)
    funcs = {}
    for i, sig in enumerate(sigs):
        # method keys: plain, non-ASCII identifier, and a method field built explicitly with a display name
        key = ["m%d", "m\u00e9thode%d", "shown%d", "_under%d"][i % 4] % i
        f, src = make_func(sig, "m%d" % i)
        if i % 4 == 2:
            setattr(schema, key, cc.InstanceMethodField(f, name="Reload Settings %d" % i))
        else:
            cc.instance_method(schema, key)(f)
        funcs[key] = (f, sig, src)
    case = {"kind": "sigs", "sigs": sigs, "job": "sigs"}

    def bad(what, msg):
        ctx.violation("C20|sig|" + what, "methods %s: %s" % ([f[2].split(":\n")[0] for f in funcs.values()], msg), case, size=len(sigs))
    snap0 = schema_snap(schema)
    ctx.states += 1
    ctx.transitions += 1
    res, out = gen(schema, "Stub")
    # generating again (same schema, then its configuration) must give the same stub: no hidden state
    res2, out2 = gen(schema, "Stub")
    res3, out3 = gen(schema(), "Stub")
    out = out + out2 + out3
    if res[0] == "ok" and (res2 != res or res3 != res):
        ctx.violation("C20|sig|not-repeatable", "methods %s: generating the stub again gives a different result: %s"
                      % ([f[2].split(":\n")[0] for f in funcs.values()], V_show(res2[1] if res2 != res else res3[1])), case, size=len(sigs))
    key = tuple(tuple(sorted(s.items())) for s in sigs)
    ctx.case(key, "sig:%s:%d" % (res[0], len(sigs)), True)
    s0 = sigs[0]
    tag = "pann=%s|rann=%s" % (s0["pann"], s0["rann"]) if len(sigs) == 1 else "multi"
    if out:
        bad("stdout|" + ("rann" if any(s["rann"] != "absent" for s in sigs) else "other"), "generate_stub wrote to standard output: %r" % out[:80])
    if res[0] == "raise":
        bad("raises-%s|%s" % (type(res[1]).__name__, tag), "generate_stub raised %r" % (res[1],))
        return
    try:
        classes, anns, init, fdefs = parse_stub(res[1])
    except SyntaxError as exc:
        bad("syntax|" + tag, "stub is not valid Python: %s\n%s" % (exc, res[1]))
        return
    if len(classes) != 1:
        bad("class-count", "stub declares %d classes" % len(classes))
        return
    if sorted(fdefs) != sorted(funcs):
        bad("methods", "stub methods %s, expected %s" % (sorted(fdefs), sorted(funcs)))
        return
    if init is None or fparams(init)["pos"] != ["self", "x"]:
        bad("init-params", "__init__ parameters wrong in a schema with instance methods")
    if "x" not in anns or any(m in anns for m in funcs):
        bad("attributes", "annotated attributes %s" % anns)
    for name, (f, sig, src) in funcs.items():
        ps = list(inspect.signature(f).parameters.values())[1:]
        want = {
            "pos": ["self"] + [p.name for p in ps if p.kind in (p.POSITIONAL_ONLY, p.POSITIONAL_OR_KEYWORD)],
            "vararg": next((p.name for p in ps if p.kind == p.VAR_POSITIONAL), None),
            "kwonly": [p.name for p in ps if p.kind == p.KEYWORD_ONLY],
            "kwarg": next((p.name for p in ps if p.kind == p.VAR_KEYWORD), None),
        }
        got = fparams(fdefs[name])
        if got != want:
            shape = "star=%s,nkw=%d,starkw=%s" % (sig["star"], sig["nkw"], sig["starkw"])
            bad("params|" + shape, "stub method %s has parameters %s, the function has %s" % (name, got, want))
    if schema_snap(schema) != snap0:
        bad("schema-changed", "generate_stub changed the schema")
    ctx.traces += 1
