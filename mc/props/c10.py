"""
C10 - a sensitive-value mask hides every sensitive value at every depth of the tree.

One schema puts a sensitive field and a non-sensitive twin of every kind (string, integer, list, encrypted
secret, salted digest) at the root, at depth 1 and 2, in a config type, in the items of a list of schemas
(and in a sub-schema inside the item) and in the items of a list of config types.  Exhaustive over the
product of per-kind value alphabets (unset / empty / distinctive / one character / number) x masks
{None, "", "*", "XX", "<hidden>"} x renderers {to_tree, dumps in every format}; the masked rendering must
equal a reference mask applied to the unmasked rendering, and no distinctive sensitive value may occur in
the output bytes.
"""
import itertools
import json

from mc import core
from mc import values as V

PROP = "C10"
LEVEL = "model_checking"
RULE = ("full product of per-kind sensitive value alphabets x mask x renderer, the same values at all 7 positions plus each "
        "position alone; non-trivial = at least one sensitive value is non-empty and a mask is given; distinct = distinct "
        "(values, mask, renderer)")
ASSUMPTIONS = ["how an empty / falsy sensitive value is rendered under a mask is not judged", "non-sensitive secrets use XOR so that two renderings are byte-comparable"]

MASKS = [None, "", "*", "XX", "<hidden>"]
POSITIONS = ["root", "sub", "sub.deep", "t", "items[]", "items[].inner", "ts[]"]
ALPH = {
    "sec_s": [None, "", "TOPSECRET-xyz", "Q", "MULTILINE-secret\nsecond-LINE\n\tthird"],
    "sec_i": [None, 0, 4242424],
    "sec_l": [None, [], ["LISTSECRET-1", 7]],
    "sec_x": [None, "", "XSECRET-q9"],
    "sec_c": [None, "CSECRET-77"],
}
PUBLIC = {"pub_s": "PUBLIC-abc", "pub_i": 1717171, "pub_l": ["PUBLIST", 3], "pub_x": "PUBX-visible"}
SENSITIVE = list(ALPH)


def fill(schema, sensitive=True):
    import cincoconfig as cc
    if not sensitive:
        schema.pub_s = cc.StringField()
        schema.pub_i = cc.IntField()
        schema.pub_l = cc.ListField()
        schema.pub_x = cc.SecureField(method="xor", sensitive=False)
        schema.pub_v = cc.VirtualField(lambda cfg: "PUBVIRT-visible")
        return
    schema.sec_v = cc.VirtualField(lambda cfg: "VIRTSECRET-zz" if cfg.sec_s else None, sensitive=True)
    schema.pub_v = cc.VirtualField(lambda cfg: "PUBVIRT-visible")
    schema.sec_s = cc.StringField(sensitive=True)
    schema.pub_s = cc.StringField()
    schema.sec_i = cc.IntField(sensitive=True)
    schema.pub_i = cc.IntField()
    schema.sec_l = cc.ListField(sensitive=True)
    schema.pub_l = cc.ListField()
    schema.sec_x = cc.SecureField(method="xor")
    schema.pub_x = cc.SecureField(method="xor", sensitive=False)
    schema.sec_c = cc.ChallengeField("md5", sensitive=True)


def build(only_at=None):
    """only_at: the single position whose schema declares sensitive fields (None: every position does)"""
    import cincoconfig as cc
    sens = lambda pos: only_at is None or only_at == pos  # noqa
    s = cc.Schema()
    fill(s, sens("root"))
    fill(s.sub, sens("sub"))
    fill(s.sub.deep, sens("sub.deep"))
    ts = cc.Schema()
    fill(ts, sens("t") or sens("ts[]"))
    CT = cc.make_type(ts, "CT10")
    if only_at != "ts[]":
        s.t = CT
    else:
        tp = cc.Schema(); fill(tp, False)
        s.t = cc.make_type(tp, "CT10plain")
    item = cc.Schema()
    fill(item, sens("items[]"))
    fill(item.inner, sens("items[].inner"))
    s.items = cc.ListField(item)
    if only_at is None:
        si = cc.Schema()
        si.name = cc.StringField()
        s.sec_cfgs = cc.ListField(si, sensitive=True)     # the list itself is the sensitive value
    if only_at == "t":
        tp = cc.Schema(); fill(tp, False)
        s.ts = cc.ListField(cc.make_type(tp, "CT10plain2"))
    else:
        s.ts = cc.ListField(CT)
    return s


def node_tree(vals, with_inner=False):
    t = {}
    for k, v in (vals or {}).items():
        if v is not None:
            t[k] = v
    t.update(PUBLIC)
    if with_inner is not False:
        t["inner"] = node_tree(with_inner)
    return t


def populate(cfg, vals_at):
    """vals_at: position -> {sensitive key: value}"""
    tree = node_tree(vals_at["root"])
    tree["sub"] = node_tree(vals_at["sub"])
    tree["sub"]["deep"] = node_tree(vals_at["sub.deep"])
    tree["t"] = node_tree(vals_at["t"])
    tree["items"] = [node_tree(vals_at["items[]"], with_inner=vals_at["items[].inner"]), node_tree(vals_at["items[]"], with_inner=vals_at["items[].inner"])]
    tree["ts"] = [node_tree(vals_at["ts[]"])]
    if "sec_cfgs" in cfg._schema._fields and vals_at["root"].get("sec_s"):
        tree["sec_cfgs"] = [{"name": "CFGLISTSECRET-a"}, {"name": "CFGLISTSECRET-b"}]
    cfg.load_tree(tree)


def nodes(cfg_or_tree, is_tree):
    """[(position, node)] pairs in a fixed order, for the configuration or a rendered tree"""
    g = (lambda o, k: o[k]) if is_tree else (lambda o, k: getattr(o, k))
    out = [("root", cfg_or_tree), ("sub", g(cfg_or_tree, "sub")), ("sub.deep", g(g(cfg_or_tree, "sub"), "deep")), ("t", g(cfg_or_tree, "t"))]
    for it in g(cfg_or_tree, "items"):
        out.append(("items[]", it))
        out.append(("items[].inner", g(it, "inner")))
    for it in g(cfg_or_tree, "ts"):
        out.append(("ts[]", it))
    return out


def bounds(tier):
    return {"masks": [repr(m) for m in MASKS], "positions": POSITIONS, "value_product": 1 if False else len(list(itertools.product(*ALPH.values()))),
            "formats": ["json", "yaml", "xml", "bson", "pickle"] if tier == "thorough" else ["json", "xml", "yaml"]}


def jobs(tier):
    combos = list(itertools.product(*ALPH.values()))
    fmts = bounds(tier)["formats"]
    out = []
    n = 16
    for c in range(n):
        out.append({"name": "all-positions/%02d" % c, "combos": [list(x) for x in combos[c::n]], "where": "all", "formats": fmts})
    for pos in POSITIONS:
        out.append({"name": "only/%s" % pos, "combos": [[a[-1] for a in ALPH.values()]], "where": pos, "formats": fmts})
        # schemas that declare sensitive fields *only* at this position (nothing sensitive anywhere else in the tree)
        out.append({"name": "schema-only/%s" % pos, "combos": [[a[-1] for a in ALPH.values()]], "where": pos, "formats": fmts, "schema_only": pos})
    for variant in INDIRECT:
        out.append({"name": "indirect/%s" % variant, "indirect": variant, "formats": fmts + (["pickle"] if "pickle" not in fmts else [])})
    return out


# configurations reached through something other than a declared sub-schema, and schemas that gain their sensitive
# fields after a first masked rendering
INDIRECT = ["virtual-raises-in-sub", "dict-of-list-of-configs", "list-of-list-of-configs", "dict-of-dict-of-list-of-configs", "sub:dict-of-list-of-configs", "sub:list-of-list-of-configs",
            "untyped-list-holds-configs", "any-holds-config-list", "dynamic-holds-config-list", "sub:untyped-list-holds-configs", "virtual-returns-item", "virtual-returns-sub", "dynamic-holds-config", "late-attr", "late-item", "late-dotted-item", "late-auto-sub",
            "late-in-item-schema", "flag-off-sub", "flag-off-root", "flag-off-item",
            "dynamic-then-declared", "dynamic-then-declared-reassigned", "dynamic-then-declared-secure", "empty-sensitive-typed-containers", "non-ascii-secrets",
            "raises:dict-of-list-of-configs", "raises:list-of-list-of-configs", "reentrant-virtual", "reentrant:dict-of-list-of-configs", "reentrant:list-of-list-of-configs"]


def _sec_s(variant):
    return "T\u00d6PSECRET-gar\u00e7on-\u2713\u540d" if variant == "non-ascii-secrets" else "TOPSECRET-xyz"


def _nonplain(node):
    """objects in a rendered tree that are not plain data (a typed-container proxy carries its whole configuration along)"""
    if isinstance(node, dict):
        return ([] if type(node) is dict else [type(node).__name__]) + [x for v in node.values() for x in _nonplain(v)]
    if isinstance(node, (list, tuple)):
        return ([] if type(node) in (list, tuple) else [type(node).__name__]) + [x for v in node for x in _nonplain(v)]
    return [] if node is None or type(node) in (str, int, float, bool, bytes) else [type(node).__name__]


def _indirect_world(variant, keypath, prior_render):
    import cincoconfig as cc
    raises = variant.startswith("raises:")      # ... plus a virtual field whose getter fails: renderings with virtual=True raise part-way
    if raises:
        variant = variant[7:]
    reentrant = variant.startswith("reentrant:") or variant == "reentrant-virtual"
    if variant.startswith("reentrant:"):
        variant = variant[10:]

    def node(sch):
        sch.sec_s = cc.StringField(sensitive=True)
        sch.sec_x = cc.SecureField(method="xor")
        sch.pub_s = cc.StringField()
        if variant == "empty-sensitive-typed-containers":
            # sensitive typed containers that are empty (declared default / assigned): nothing to hide in them, and nothing of
            # the configuration travels with them into the rendered tree
            sch.sec_tl = cc.ListField(cc.StringField(), sensitive=True, default=[])
            sch.sec_td = cc.DictField(cc.StringField(), cc.StringField(), sensitive=True, default=dict)
            sch.sec_tl2 = cc.ListField(cc.IntField(), sensitive=True)
    s = cc.Schema(dynamic=variant.startswith("dynamic-holds-config") or variant.startswith("dynamic-then-declared"))
    node(s)
    node(s.sub)
    item = cc.Schema()
    node(item)
    s.items = cc.ListField(item)
    nested_val = None
    holder = s.sub if variant.startswith("sub:") else s          # the container field sits at the root or one level down
    if variant.endswith("holds-configs") or variant.endswith("holds-config-list"):
        # a list of configurations held by a field that is not a typed list of them
        mk = lambda: item(sec_s="TOPSECRET-xyz", sec_x="XSECRET-q9", pub_s="PUBLIC-abc")  # noqa
        if "untyped-list" in variant:
            holder.deepc = cc.ListField()
        elif variant.startswith("any"):
            holder.deepc = cc.AnyField()
        nested_val = lambda: [mk(), mk()]  # noqa
    if variant.endswith("of-list-of-configs"):
        # configurations held in a list that itself sits inside a typed dict / list value
        mk = lambda: item(sec_s="TOPSECRET-xyz", sec_x="XSECRET-q9", pub_s="PUBLIC-abc")  # noqa
        if "dict-of-list" in variant and "dict-of-dict" not in variant:
            holder.deepc = cc.DictField(cc.StringField(), cc.ListField(item))
            nested_val = lambda: {"k": [mk(), mk()]}  # noqa
        elif "list-of-list" in variant:
            holder.deepc = cc.ListField(cc.ListField(item))
            nested_val = lambda: [[mk()], [mk(), mk()]]  # noqa
        else:
            holder.deepc = cc.DictField(cc.StringField(), cc.DictField(cc.StringField(), cc.ListField(item)))
            nested_val = lambda: {"o": {"k": [mk()]}}  # noqa
    if variant == "virtual-returns-item":
        s.first = cc.VirtualField(lambda cfg: cfg.items[0] if cfg.items else None)
    if variant == "virtual-raises-in-sub" or raises:
        # a virtual field of the sub-configuration whose getter fails (TypeError) when virtual fields are rendered
        s.sub.broken = cc.VirtualField(lambda cfg: cfg.sec_s + 1)
    if reentrant:
        # a virtual field (declared before everything else) whose getter renders its own configuration: a fingerprint of the settings
        s.zz_fingerprint = cc.VirtualField(lambda cfg: len(cfg.dumps("json")) + len(cfg.to_tree()))
        s._fields.move_to_end("zz_fingerprint", last=False)
    if variant == "virtual-returns-sub":
        s.alias = cc.VirtualField(lambda cfg: cfg.sub)
    vals = {"sec_s": _sec_s(variant), "sec_x": "XSECRET-q9", "pub_s": "PUBLIC-abc"}
    tree = dict(vals, sub=dict(vals), items=[dict(vals)])
    if variant.startswith("flag-off"):
        # a section whose feature flag is off is still rendered: its sensitive values, the ones of the sections below it
        # and of its list items are masked like everywhere else
        node(s.sub.below)
        s.sub.subitems = cc.ListField(item)
        tree["sub"].update(below=dict(vals), subitems=[dict(vals), dict(vals)])
        {"flag-off-sub": s.sub, "flag-off-root": s, "flag-off-item": item}[variant].enabled = cc.FeatureFlagField(default=False)
    cfg = cc.Config(s, key_filename=keypath)
    cfg.load_tree(tree)
    if nested_val is not None:
        (cfg.sub if variant.startswith("sub:") else cfg).deepc = nested_val()
    if prior_render:
        cfg.to_tree(sensitive_mask="*")
        cfg.dumps("json", sensitive_mask="XX")
    late = {}
    if variant == "late-attr":
        s.late = cc.StringField(sensitive=True)
        late = {"late": "LATESECRET-1"}
    elif variant == "late-item":
        s["late"] = cc.StringField(sensitive=True)
        late = {"late": "LATESECRET-1"}
    elif variant == "late-dotted-item":
        s["sub.late"] = cc.StringField(sensitive=True)
        late = {"sub": dict(vals, late="LATESECRET-1")}
    elif variant == "late-auto-sub":
        s.newsub.late = cc.StringField(sensitive=True)
        late = {"newsub": {"late": "LATESECRET-1"}}
    elif variant == "late-in-item-schema":
        item["late"] = cc.StringField(sensitive=True)
        late = {"items": [dict(vals, late="LATESECRET-1")]}
    if late:
        cfg = cc.Config(s, key_filename=keypath)       # a configuration built after the schema grew
        cfg.load_tree(dict(tree, **late))
    if variant == "empty-sensitive-typed-containers":
        cfg.sec_tl2 = []
        cfg.sub.sec_tl2 = [1]
        cfg.sub.sec_tl2.pop()
    if variant.startswith("dynamic-then-declared"):
        # a dynamic configuration holds an ad-hoc value; the schema then declares that key as a sensitive field: from
        # then on the declared field governs the key (it validates every write), also when the old object is rendered
        cfg.late = "LATESECRET-1"
        s.late = cc.SecureField(method="xor") if variant.endswith("secure") else cc.StringField(sensitive=True)
        if not variant.endswith("declared"):
            cfg.late = "LATESECRET-1"
    if variant == "dynamic-holds-config":
        held = cc.Config(item, key_filename=keypath)
        held.load_tree(dict(vals))
        cfg.extra = held
    return cfg


def _live_configs(node):
    import cincoconfig as cc
    if isinstance(node, cc.Config):
        return 1
    if isinstance(node, dict):
        return sum(_live_configs(v) for v in node.values())
    if isinstance(node, (list, tuple)):
        return sum(_live_configs(v) for v in node)
    return 0


def _indirect(job, ctx):
    import cincoconfig as cc
    keypath = ctx.tmp + "/c10.key"
    open(keypath, "wb").write(bytes(range(32)))
    variant = job["indirect"]
    only = job.get("only")
    secrets = [_sec_s(variant), "XSECRET-q9", "LATESECRET-1"]
    for prior in (False, True):
        for mask in MASKS[1:]:
            for virtual in (False, True):
                ident = [prior, mask, virtual]
                if only is not None and only != ident:
                    continue
                mtag = "empty" if mask == "" else ("1char" if len(mask) == 1 else "multi")
                case = _case(job, ident)

                def bad(what, msg, case=case, mask=mask, virtual=virtual):
                    ctx.violation("C10|indirect|%s|%s" % (variant, what), "%s, mask %r, virtual=%s: %s" % (variant, mask, virtual, msg), case)
                try:
                    cfg = _indirect_world(variant, keypath, prior)
                except Exception as exc:  # noqa
                    ctx.case(("indirect", variant, repr(ident)), "indirect:unsupported", False)
                    continue
                try:
                    plain0 = cfg.to_tree()
                except Exception:  # noqa
                    plain0 = None
                try:
                    plain = cfg.to_tree(virtual=virtual)
                except Exception as exc:  # noqa
                    plain = None            # this configuration cannot be rendered this way at all; a masked attempt may fail too, but not leak
                ctx.transitions += 1
                try:
                    masked = cfg.to_tree(virtual=virtual, sensitive_mask=mask)
                except Exception as exc:  # noqa
                    masked = None
                    if plain is not None:
                        bad("to_tree-raises", "the masked rendering raised %r, the plain one did not" % (exc,))
                    else:
                        ctx.case(("indirect", variant, repr(ident)), "indirect:unrenderable", False)
                # whatever the masked rendering did (it may have failed part-way), a rendering without a mask shows what is stored
                if plain0 is not None:
                    try:
                        again = cfg.to_tree()
                    except Exception as exc:  # noqa
                        again = "raised %r" % (exc,)
                    if V.canon(again) != V.canon(plain0):
                        bad("unmasked-render-altered", "after a masked rendering, to_tree() without a mask gives %s instead of %s" % (V.show(again, 120), V.show(plain0, 120)))
                if masked is None:
                    continue
                if plain is None:
                    plain = masked
                live = _live_configs(masked)
                if live:
                    bad("live-config-in-tree", "the masked tree holds %d live configuration object(s); their sensitive values are readable as they are" % live)
                odd = [x for x in _nonplain(masked) if x not in ("Config",) and not x.startswith("CT") and x not in _nonplain(plain)]
                if odd:
                    bad("non-plain-object-in-tree", "the masked tree holds %s objects where the plain rendering holds plain data" % sorted(set(odd)))
                text = repr(masked)
                leaked = [x for x in secrets if x in text]
                if leaked:
                    bad("secret-in-tree|mask=" + mtag, "the masked tree contains %s" % leaked)
                if text.count("PUBLIC-abc") != repr(plain).count("PUBLIC-abc"):
                    bad("non-sensitive-altered", "the non-sensitive values of the masked tree differ from the plain one")
                want = mask * len(_sec_s(variant)) if len(mask) == 1 else mask        # one mask character per character of the value
                if masked.get("sec_s") != want:
                    bad("not-masked|root", "the root's sensitive string is rendered as %r" % (masked.get("sec_s"),))
                ctx.case(("indirect", variant, repr(ident)), "indirect:%s:%s" % (variant, mtag), True)
                for fmt in job["formats"]:
                    ctx.transitions += 1
                    try:
                        cfg.dumps(fmt, virtual=virtual)
                        plain_doc = True
                    except Exception:  # noqa
                        plain_doc = False          # this position cannot be written in this format at all
                    try:
                        data = cfg.dumps(fmt, virtual=virtual, sensitive_mask=mask)
                    except Exception as exc:  # noqa
                        if plain_doc:
                            bad("dumps-raises|" + fmt, "the masked %s document raised %r, the plain one did not" % (fmt, exc))
                        continue
                    leaked = [x for x in secrets if x.encode() in data]
                    if leaked:
                        bad("secret-in-document|" + fmt, "the masked %s document contains %s" % (fmt, leaked))
                    ctx.case(("indirect", variant, repr(ident), fmt), "indirect-doc:%s" % fmt, True)
    ctx.traces += 1
    ctx.sample({"indirect": variant, "masks": [repr(m) for m in MASKS[1:]]})


def run_job(job, ctx):
    single = job.get("single")
    if single:
        job = dict(single["jobparams_full"]); job["only"] = single["only"]
    only = job.get("only")
    if job.get("indirect"):
        return _indirect(job, ctx)
    schema = build(job.get("schema_only"))
    keypath = ctx.tmp + "/c10.key"
    open(keypath, "wb").write(bytes(range(32)))
    for ci, combo in enumerate(job["combos"]):
        vals = dict(zip(ALPH, combo))
        empty = {k: None for k in ALPH}
        vals_at = {p: (vals if job["where"] in ("all", p) else (empty if not job.get("schema_only") else {})) for p in POSITIONS}
        for mask in MASKS:
            if only is not None and only != [ci, mask]:
                continue
            check(ctx, job, schema, keypath, vals_at, mask, [ci, mask])
    ctx.states += len(job["combos"])
    ctx.sample({"where": job["where"], "values": dict(zip(ALPH, job["combos"][-1])), "masks": [repr(m) for m in MASKS], "formats": job["formats"]})


def _case(job, only):
    return {"jobparams_full": {k: v for k, v in job.items() if k not in ("single", "only")}, "only": only, "job": job["name"]}


def distinctive(v):
    out = []
    if isinstance(v, str) and len(v) >= 6:
        out.append(v)
    elif isinstance(v, int) and not isinstance(v, bool) and v > 99999:
        out.append(str(v))
    elif isinstance(v, list):
        for x in v:
            out += distinctive(x)
    return out


def check(ctx, job, schema, keypath, vals_at, mask, key):
    import cincoconfig as cc
    cfg = cc.Config(schema, key_filename=keypath)
    populate(cfg, vals_at)
    case = _case(job, key)
    mtag = "none" if mask is None else ("empty" if mask == "" else ("1char" if len(mask) == 1 else "multi"))

    def bad(what, msg):
        ctx.violation("C10|%s|mask=%s|%s" % (job["where"], mtag, what), "values %s at %s, mask %r: %s" % (vals_at[job["where"] if job["where"] != "all" else "root"], job["where"], mask, msg), case)
    for virtual in (False, True):
        _check_render(ctx, job, cfg, vals_at, mask, key, virtual, bad)
    ctx.traces += 1


def _check_render(ctx, job, cfg, vals_at, mask, key, virtual, bad):
    import cincoconfig as cc
    mtag = "none" if mask is None else ("empty" if mask == "" else ("1char" if len(mask) == 1 else "multi"))
    vtag = "|virtual" if virtual else ""
    try:
        plain = cfg.to_tree(virtual=virtual)
        masked = cfg.to_tree(virtual=virtual, sensitive_mask=mask)
    except Exception as exc:  # noqa
        ctx.case((repr(vals_at), repr(mask), "to_tree"), "to_tree:raises", True)
        bad("to_tree-raises", "to_tree raised %r" % (exc,))
        return
    nontrivial = mask is not None and any(v for p in vals_at.values() for v in p.values())
    # ---- reference mask applied to the plain rendering
    expect_nodes = []
    for (pos, pnode), (_, mnode), (_, cnode) in zip(nodes(plain, True), nodes(masked, True), nodes(cfg, False)):
        for k in list(pnode):
            if isinstance(pnode[k], dict) and k in ("sub", "deep", "inner", "t") or k in ("items", "ts"):
                continue
            if k == "sec_cfgs":
                value = getattr(cnode, k)
                if mask is not None and value:
                    want = mask * len(str(value)) if len(mask) == 1 else mask
                    if mnode.get(k) != want:
                        bad("not-masked%s|%s|sec_cfgs" % (vtag, pos), "the sensitive list of configurations is rendered as %s" % V.show(mnode.get(k), 60))
                continue
            if (k in SENSITIVE or k == "sec_v") and mask is not None:
                value = getattr(cnode, k)
                if not value:
                    continue            # falsy sensitive values: rendering not judged
                want = mask * len(str(value)) if len(mask) == 1 else mask
                if mnode.get(k) != want:
                    bad("not-masked%s|%s|%s" % (vtag, pos, k), "%s.%s is rendered as %s, expected %r" % (pos, k, V.show(mnode.get(k), 60), want))
            else:
                if V.canon(mnode.get(k)) != V.canon(pnode[k]):
                    bad("non-sensitive-altered|%s|%s" % (pos, k), "%s.%s is rendered as %s with the mask and %s without" % (pos, k, V.show(mnode.get(k), 40), V.show(pnode[k], 40)))
        if set(mnode) != set(pnode):
            bad("keys-differ|%s" % pos, "masked rendering has keys %s, plain %s" % (sorted(set(mnode) ^ set(pnode)), ""))
    ctx.transitions += 1
    ctx.case((repr(vals_at), repr(mask), "to_tree", virtual), "to_tree:%s%s" % (mtag, vtag), nontrivial)
    # ---- documents
    secrets = sorted({d for p in vals_at.values() for k, v in p.items() for d in distinctive(v)})
    if virtual and any(p.get("sec_s") for p in vals_at.values()):
        secrets.append("VIRTSECRET-zz")
    if vals_at["root"].get("sec_s") and "sec_cfgs" in cfg._schema._fields:
        secrets.append("CFGLISTSECRET-a")
    if virtual:
        for (pos, mnode) in nodes(masked, True):
            if "pub_v" not in mnode or mnode["pub_v"] != "PUBVIRT-visible":
                bad("virtual-missing|%s" % pos, "to_tree(virtual=True) lacks the non-sensitive virtual field at %s" % pos)
    for fmt in job["formats"]:
        ctx.transitions += 1
        try:
            data = cfg.dumps(fmt, virtual=virtual, sensitive_mask=mask)
            back = cc.ConfigFormat.get(fmt).loads(None, data)
        except Exception as exc:  # noqa
            bad("dumps-raises|" + fmt, "dumps(%s) raised %r" % (fmt, exc))
            continue
        ctx.case((repr(vals_at), repr(mask), fmt, virtual), "dumps:%s:%s" % (fmt, mtag), nontrivial)
        if mask is not None:
            for sct in secrets:
                if sct.encode() in data or json.dumps(sct).encode()[1:-1] in data:
                    bad("secret-in-document|" + fmt, "the %s document contains the sensitive value %r" % (fmt, sct))
                    break
        if V.canon(back) != V.canon(masked):
            bad("document-differs|" + fmt, "the %s document does not decode to to_tree(sensitive_mask=%r)" % (fmt, mask))
    if mask is None and V.canon(masked) != V.canon(plain):
        bad("no-mask-altered", "to_tree(sensitive_mask=None) differs from to_tree()")
