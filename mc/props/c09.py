"""
C09 - challenge fields keep only a salted hash that verifies exactly the secret.

Exhaustive over hash algorithm x ordered pairs of the secret alphabet x assignment route x format,
plus every operation sequence up to depth 3 over {assign p, assign q, save+load, reset, read};
digests are recomputed with hashlib independently of the library, salts are compared for freshness
over the whole job, and every rendering is scanned for the plaintext.
"""
import base64
import hashlib
import os
import itertools
import random

from mc import values as V

PROP = "C09"
LEVEL = "model_checking"
RULE = ("full product algorithm x secret pair (p, q) x route x format, and all operation sequences up to depth 3 on a "
        "challenge field; non-trivial = every case (each hashes at least one secret and challenges it with another); "
        "distinct = distinct (algorithm, route, p, q, format) or (algorithm, format, sequence)")
ASSUMPTIONS = ["hashlib is the reference for the six algorithms", "salt quality is checked as freshness (no repeats), not randomness",
               "plaintext scans use secrets of at least 4 characters; shorter ones cannot be distinguished from noise"]

ALGS = ["md5", "sha1", "sha224", "sha256", "sha384", "sha512"]
SECRETS = ["", "a", "b", "A", "a ", "aa", "é", "é", "a\x00", {"$": "bigstr", "c": "a", "n": 1000}, V.Y(b"a"), V.Y(b"\xff"),
           "hunter2-ZQX", "hunter2?", "pässwörd-ÜÑ", "user:pass", "abcd:efgh", ":", "QUJD:QUJD", "sysadmin:hunter22", "{\"salt\": \"x\"}"]
# presented to challenge() only: text with a lone surrogate has no UTF-8 form, so it can be nobody's secret
UNENCODABLE = ["hunter2\udcff", "\udcff", "a\ud800"]
FORMATS = ["json", "yaml", "xml", "bson", "pickle"]
ROUTES = ["attr", "validator-attr", "validator-list-item", "cmdline", "cmdline-nested", "late-declared-attr", "late-declared-load", "item-config-tree", "item-config-type-tree", "ctor", "default", "default-callable", "digest-default", "digest-exact-salt", "digest-long-salt", "load_tree", "document", "document-yaml", "document-xml", "list-assign", "list-append",
          "dict-default-item", "dict-factory-default-update", "list-default-append", "list-factory-default-iadd", "include-overrides-stored",
          "list-assign-dup", "tuple-assign-dup", "list-default-dup", "dict-assign-dup", "dict-item", "dict-setdefault", "dict-update", "dict-ior", "dict-assign", "list-insert", "list-setitem", "list-setslice", "list-extend", "list-iadd",
          "list-from-str-proxy", "list-extend-str-proxy", "list-iadd-any-proxy", "sub-document-xml"]


def bounds(tier):
    return {"algorithms": ALGS,
            "formats": FORMATS if tier == "thorough" else ["json", "xml"], "secrets": len(SECRETS), "routes": ROUTES,
            "sequence_depth": 3}


def jobs(tier):
    b = bounds(tier)
    out = []
    for alg in b["algorithms"]:
        for route in ROUTES:
            out.append({"name": "pairs/%s/%s" % (alg, route), "kind": "pairs", "alg": alg, "route": route, "formats": b["formats"]})
        for fmt in b["formats"]:
            out.append({"name": "seq/%s/%s" % (alg, fmt), "kind": "seq", "alg": alg, "fmt": fmt, "depth": b["sequence_depth"]})
    return out


def enc(p):
    return p if isinstance(p, bytes) else p.encode()


def _world(alg, default=None, callable_default=False):
    import cincoconfig as cc
    # for half of the algorithms the schema sits under an environment prefix and every variable a field is bound to
    # exists but is empty: an empty variable supplies nothing and shadows nothing
    under_env = ALGS.index(alg) % 2 == 0
    schema = cc.Schema(env="C09E") if under_env else cc.Schema()
    kw = {}
    if default is not None:
        kw["default"] = (lambda d=default: d) if callable_default else default
    schema.pw = cc.ChallengeField(alg, **kw)
    schema.l = cc.ListField(cc.ChallengeField(alg))
    schema.d = cc.DictField(key_field=cc.StringField(), value_field=cc.ChallengeField(alg))
    schema.other = cc.StringField(default="o")
    # containers left at their (empty) declared defaults, literal and produced by a factory
    schema.d0 = cc.DictField(key_field=cc.StringField(), value_field=cc.ChallengeField(alg), default={})
    schema.d1 = cc.DictField(key_field=cc.StringField(), value_field=cc.ChallengeField(alg), default=dict)
    schema.l0 = cc.ListField(cc.ChallengeField(alg), default=[])
    schema.l1 = cc.ListField(cc.ChallengeField(alg), default=list)
    schema.include = cc.IncludeField()
    if under_env:
        from mc import cfgworld as W
        for name in W.env_names(schema):
            os.environ[name] = ""
    return schema


def _place(schema, route, p, alg):
    """Build a configuration holding secret p via `route`; -> (cfg, getter)"""
    import cincoconfig as cc
    if route == "attr":
        cfg = schema(); cfg.pw = p
        return cfg, lambda c: c.pw
    if route.startswith("validator-"):
        # a user validator on the challenge field (it returns what it is given): it sees, and hands back, the hashed value
        seen = []

        def ident(cfg, v, seen=seen):
            seen.append(type(v).__name__)
            return v
        s2 = cc.Schema()
        s2.pw = cc.ChallengeField(alg, validator=ident)
        s2.l = cc.ListField(cc.ChallengeField(alg, validator=ident))
        cfg = s2()
        if route == "validator-attr":
            cfg.pw = p
            return cfg, lambda c: c.pw
        cfg.l = ["first-item-secret"]
        cfg.l.append(p)
        return cfg, lambda c: c.l[1]
    if route.startswith("cmdline"):
        # the secret arrives as a command-line option and is applied with the override helper
        import contextlib, io
        s2 = cc.Schema()
        s2.pw = cc.ChallengeField(alg)
        s2.auth.token = cc.ChallengeField(alg)
        s2.auth.n = cc.IntField(default=1)
        cfg = s2()
        import argparse
        # (the generated parser offers no option for a challenge field: the application's own parser has one)
        ns = argparse.Namespace(pw=p) if route == "cmdline" else argparse.Namespace(**{"auth.token": p, "auth.n": 2})
        cc.cmdline_args_override(cfg, ns)
        return cfg, (lambda c: c.pw) if route == "cmdline" else (lambda c: c.auth.token)
    if route.startswith("late-declared"):
        # a dynamic configuration already holds an ad-hoc value under the key; the schema then declares the key as a challenge
        # field: from then on every write to the key is a secret
        s2 = cc.Schema(dynamic=True)
        s2.other = cc.StringField(default="o")
        cfg = s2()
        cfg.pw = "an-older-adhoc-value"
        s2.pw = cc.ChallengeField(alg)
        if route.endswith("attr"):
            cfg.pw = p
        else:
            cfg.load_tree({"pw": p})
        return cfg, lambda c: c.pw
    if route.startswith("item-config"):
        # the challenge field sits in the item schema of a list of configurations (plain sub-schema / config type)
        item = cc.Schema()
        item.pw = cc.ChallengeField(alg)
        item.n = cc.IntField(default=1)
        s2 = cc.Schema()
        s2.items = cc.ListField(cc.make_type(item, "Item09") if "type" in route else item)
        s2.pw = cc.ChallengeField(alg)
        cfg = s2()
        cfg.load_tree({"items": [{"n": 2}, {"pw": p}]})
        return cfg, lambda c: c.items[1].pw
    if route == "ctor":
        cfg = schema(pw=p)
        return cfg, lambda c: c.pw
    if route == "load_tree":
        cfg = schema(); cfg.load_tree({"pw": p})
        return cfg, lambda c: c.pw
    if route == "document":
        import json
        cfg = schema(); cfg.loads(json.dumps({"pw": p}), "json")
        return cfg, lambda c: c.pw
    if route in ("document-yaml", "document-xml", "sub-document-xml"):
        import cincoconfig as cc2
        fmt = "yaml" if route == "document-yaml" else "xml"
        tree = {"pw": p} if not route.startswith("sub") else {"l": [p]}
        cfg = schema(); cfg.loads(cc2.ConfigFormat.get(fmt).dumps(None, tree), fmt)
        return cfg, (lambda c: c.pw) if not route.startswith("sub") else (lambda c: c.l[0])
    if route in ("list-from-str-proxy", "list-extend-str-proxy", "list-iadd-any-proxy"):
        import cincoconfig as cc2
        other = cc2.Schema()
        other.strings = cc2.ListField(cc2.StringField())
        other.anys = cc2.ListField(cc2.AnyField() if False else cc2.StringField(min_len=0))
        oc = other()
        oc.strings = [p]
        oc.anys = [p]
        cfg = schema()
        if route == "list-from-str-proxy":
            cfg.l = oc.strings
        elif route == "list-extend-str-proxy":
            cfg.l = []
            cfg.l.extend(oc.strings)
        else:
            cfg.l = []
            cfg.l += oc.anys
        return cfg, lambda c: c.l[0]
    if route == "dict-default-item":
        cfg = schema(); cfg.d0["k"] = p
        return cfg, lambda c: c.d0["k"]
    if route == "dict-factory-default-update":
        cfg = schema(); cfg.d1.update({"k": p})
        return cfg, lambda c: c.d1["k"]
    if route == "list-default-append":
        cfg = schema(); cfg.l0.append(p)
        return cfg, lambda c: c.l0[0]
    if route == "list-factory-default-iadd":
        cfg = schema(); cfg.l1 += [p]
        return cfg, lambda c: c.l1[0]
    if route == "include-overrides-stored":
        # the main document still holds the stored pair of an *older* secret; the included file names the new one in clear
        import json, os
        old = schema(); old.pw = "the-older-secret"
        stored = old.to_tree()["pw"]
        inc = os.path.abspath("c09-include.json")
        with open(inc, "w") as fh:
            json.dump({"pw": p}, fh)
        cfg = schema(); cfg.loads(json.dumps({"pw": stored, "include": inc}), "json")
        cfg.include = None         # (later renderings of this configuration must not pull the file in again)
        return cfg, lambda c: c.pw
    if route == "list-assign":
        cfg = schema(); cfg.l = [p]
        return cfg, lambda c: c.l[0]
    if route in ("list-assign-dup", "tuple-assign-dup"):        # the same secret at several positions of one assigned value
        vals = [p, "another-secret", p]
        cfg = schema(); cfg.l = vals if route.startswith("list") else tuple(vals)
        return cfg, lambda c: c.l[0]
    if route == "list-default-dup":
        import cincoconfig as cc3
        s2 = cc3.Schema()
        s2.l = cc3.ListField(cc3.ChallengeField(alg), default=[p, "another-secret", p])
        cfg = s2()
        return cfg, lambda c: c.l[0]
    if route == "dict-assign-dup":
        cfg = schema(); cfg.d = {"k": p, "j": "another-secret", "m": p}
        return cfg, lambda c: c.d["k"]
    if route == "list-append":
        cfg = schema(); cfg.l = []; cfg.l.append(p)
        return cfg, lambda c: c.l[0]
    if route == "dict-item":
        cfg = schema(); cfg.d = {}; cfg.d["k"] = p
        return cfg, lambda c: c.d["k"]
    if route.startswith("dict-"):
        cfg = schema()
        if route == "dict-assign":
            cfg.d = {"k": p}
        else:
            cfg.d = {}
            if route == "dict-setdefault":
                cfg.d.setdefault("k", p)
            elif route == "dict-update":
                cfg.d.update({"k": p})
            else:
                cfg.d |= {"k": p}
        return cfg, lambda c: c.d["k"]
    if route in ("list-insert", "list-setitem", "list-setslice", "list-extend", "list-iadd"):
        cfg = schema(); cfg.l = []
        if route == "list-insert":
            cfg.l.insert(0, p)
        elif route == "list-setitem":
            cfg.l.append("placeholder-secret"); cfg.l[0] = p
        elif route == "list-setslice":
            cfg.l[0:0] = [p]
        elif route == "list-extend":
            cfg.l.extend([p])
        else:
            cfg.l += [p]
        return cfg, lambda c: c.l[0]
    raise ValueError(route)


def check_digest(ctx, bad, alg, dv, p, others, salts, where):
    """All per-value oracles; returns False when the value is unusable."""
    h = getattr(hashlib, alg)
    if type(dv).__name__ != "DigestValue":
        bad("not-a-digest", "%s: value is %s, not a digest" % (where, V.show(dv, 60)))
        return False
    if len(dv.salt) != h().digest_size:
        bad("salt-length", "%s: salt has %d bytes, digest size is %d" % (where, len(dv.salt), h().digest_size))
    if dv.digest != h(dv.salt + enc(p)).digest():
        bad("digest-not-hash-of-salt-plus-secret", "%s: digest is not %s(salt + secret)" % (where, alg))
    held_before = (tuple(dv), sorted(getattr(dv, "__dict__", {}).items(), key=repr))
    try:
        dv.challenge(p)
    except Exception as exc:  # noqa
        bad("challenge-rejects-secret", "%s: challenge with the secret raised %r" % (where, exc))
    for q in others:
        if enc(q) == enc(p):
            continue
        for attempt in (1, 2):       # the same wrong secret presented again must be refused again
            try:
                dv.challenge(q)
                bad("challenge-accepts-other" + ("" if attempt == 1 else "|repeated"),
                    "%s: challenge(%s) succeeded (attempt %d) for secret %s" % (where, V.show(q, 30), attempt, V.show(p, 30)))
            except ValueError:
                pass
            except Exception as exc:  # noqa
                bad("challenge-wrong-exception", "%s: failed challenge raised %s, not ValueError" % (where, type(exc).__name__))
    for q in UNENCODABLE:
        try:
            dv.challenge(q)
            bad("challenge-accepts-unencodable", "%s: challenge(%r) succeeded for secret %s" % (where, q, V.show(p, 30)))
        except ValueError:
            pass
        except Exception as exc:  # noqa
            bad("challenge-wrong-exception", "%s: a challenge with unencodable text raised %s, not a ValueError" % (where, type(exc).__name__))
    try:
        dv.challenge(p)
    except Exception as exc:  # noqa
        bad("challenge-rejects-secret|after-failures", "%s: challenge with the secret after failed challenges raised %r" % (where, exc))
    held_after = (tuple(dv), sorted(getattr(dv, "__dict__", {}).items(), key=repr))
    if held_after != held_before:
        bad("challenge-changes-value", "%s: challenging changed what the value holds: %s" % (where, V.show(held_after, 80)))
    if salts is not None:
        if dv.salt in salts:
            bad("salt-reused", "%s: salt %s was used before" % (where, dv.salt.hex()[:16]))
        salts.add(dv.salt)
    if len(enc(p)) >= 4 and len(enc(p)) < 100:
        needles = [enc(p), base64.b64encode(enc(p)), enc(p).hex().encode()]
        hay = [repr(dv).encode("utf-8", "backslashreplace"), str(dv).encode("utf-8", "backslashreplace")]
        hay += [x if isinstance(x, bytes) else repr(x).encode() for x in tuple(dv)]
        hay += [repr(v).encode("utf-8", "backslashreplace") for v in getattr(dv, "__dict__", {}).values()]
        for n in needles:
            if any(n in x for x in hay):
                bad("plaintext-in-memory", "%s: the in-memory value contains the plaintext" % where)
                break
    return True


def scan_output(bad, out, p, where):
    if len(enc(p)) >= 4 and len(enc(p)) < 100:
        for n in (enc(p), base64.b64encode(enc(p)), enc(p).hex().encode(), enc(p).decode("utf-8", "replace").encode("unicode_escape")):
            if n in out:
                bad("plaintext-in-output", "%s: the serialised document contains the plaintext" % where)
                return


def run_job(job, ctx):
    single = job.get("single")
    if single:
        job = dict(single["jobparams_full"]); job["only"] = single["only"]
    if job["kind"] == "pairs":
        _pairs(job, ctx)
    else:
        _seq(job, ctx)


def _case(job, only):
    return {"jobparams_full": {k: v for k, v in job.items() if k not in ("single", "only")}, "only": only, "job": job["name"]}


def _pairs(job, ctx):
    import cincoconfig as cc
    alg, route = job["alg"], job["route"]
    salts = set()
    secrets = [V.dec(s) for s in SECRETS]
    only = job.get("only")
    for pi, p in enumerate(secrets):
        if (route.startswith("document") or route.startswith("sub-document") or route.endswith("proxy") or route in ("default", "default-callable", "load_tree", "include-overrides-stored", "late-declared-load", "item-config-tree", "item-config-type-tree", "cmdline", "cmdline-nested")) and not isinstance(p, str):  # trees and defaults are text
            ctx.skipped += 1
            continue
        if route.endswith("xml") and isinstance(p, str) and ("\x00" in p or not p.strip(" ") == p and False):
            ctx.skipped += 1
            continue
        if only is not None and only != pi:
            continue
        fp = "C09|%s|%s|" % (alg, route)
        case = _case(job, pi)

        def bad(what, msg):
            ctx.violation(fp + what, "secret #%d %s: %s" % (pi, V.show(p, 30), msg), case, size=pi)
        try:
            if route in ("default", "default-callable"):
                schema = _world(alg, default=p, callable_default=(route == "default-callable"))
                cfg, get = schema(), (lambda c: c.pw)
            elif route == "digest-default":
                dv0 = cc.DigestValue.create(p, getattr(hashlib, alg))
                schema = _world(alg, default=dv0)
                cfg, get = schema(), (lambda c: c.pw)
            elif route in ("digest-exact-salt", "digest-long-salt"):
                # a digest value made with a caller-supplied salt (of exactly the digest's length / longer: the surplus is dropped *before* hashing)
                hcls = getattr(hashlib, alg)
                n = hcls().digest_size
                given = bytes((i * 7 + 3) % 256 for i in range(n if route == "digest-exact-salt" else n + 37))
                dv0 = cc.DigestValue.create(p, hcls, salt=given)
                schema = _world(alg)
                cfg, get = schema(), (lambda c: c.pw)
                cfg.pw = dv0
                if get(cfg).salt != given[:n]:
                    bad("given-salt-not-kept", "the value holds salt %s, the caller gave %s" % (get(cfg).salt.hex()[:16], given[:n].hex()[:16]))
            else:
                schema = _world(alg)
                random.seed(20240917)          # the library's salts must not come from the shared pseudo-random generator
                cfg, get = _place(schema, route, p, alg)
            dv = get(cfg)
        except Exception as exc:  # noqa
            ctx.case((alg, route, pi), "place:raises", True)
            bad("assign-raises", "storing the secret raised %r" % (exc,))
            continue
        ctx.case((alg, route, pi), "place:ok", True)
        ctx.transitions += 1
        ctx.states += 1
        if not check_digest(ctx, bad, alg, dv, p, secrets, None if route.endswith("-salt") else salts, "after " + route):
            continue
        if route.endswith("-dup"):
            twin = cfg.d["m"] if route.startswith("dict") else cfg.l[2]
            if not check_digest(ctx, bad, alg, twin, p, secrets[:3], salts, "the same secret at another position, after " + route):
                continue
        # a second assignment of the same secret gets another salt
        if route not in ("digest-default", "digest-exact-salt", "digest-long-salt"):
            try:
                if route in ("default", "default-callable"):
                    cfg2, get2 = schema(), get
                else:
                    random.seed(20240917)
                    cfg2, get2 = _place(schema, route, p, alg)
                dv2 = get2(cfg2)
                ctx.transitions += 1
                if dv2.salt == dv.salt:
                    bad("same-salt-twice", "two assignments of one secret share the salt")
                salts.add(dv2.salt)
            except Exception as exc:  # noqa
                bad("assign-raises", "second assignment raised %r" % (exc,))
        # serialise, scan, reload, compare
        for fmt in job["formats"]:
            try:
                out = cfg.dumps(fmt)
            except Exception as exc:  # noqa
                bad("dumps-raises|" + fmt, "dumps(%s) raised %r" % (fmt, exc))
                continue
            ctx.transitions += 1
            scan_output(bad, out, p, "dumps(%s)" % fmt)
            fresh = cfg._schema()       # (the schema the route built its configuration from)
            try:
                fresh.loads(out, fmt)
                dv3 = get(fresh)
            except Exception as exc:  # noqa
                bad("reload-raises|" + fmt, "loading the %s document back raised %r" % (fmt, exc))
                continue
            ctx.transitions += 1
            ctx.case((alg, route, pi, fmt), "reload:" + fmt, True)
            if type(dv3).__name__ != "DigestValue" or dv3.salt != dv.salt or dv3.digest != dv.digest:
                bad("reload-changed|" + fmt, "salt/digest changed across save+load in %s: %s" % (fmt, V.show(dv3, 60)))
                continue
            check_digest(ctx, bad, alg, dv3, p, secrets, None, "after reload from " + fmt)
    ctx.traces += 1
    ctx.sample({"algorithm": alg, "route": route, "secrets": [V.show(s, 20) for s in secrets], "formats": job["formats"]})


def _seq(job, ctx):
    """all operation sequences up to the depth bound on one field, tracking which secret it must hold"""
    import cincoconfig as cc
    alg, fmt, depth = job["alg"], job["fmt"], job["depth"]
    P, Q, DFL = "first-secret-P", "other-secret-Qé", "default-secret-D"
    ops = ["assign-p", "assign-q", "saveload", "reset", "load-plain-q", "assign-bytes-p"]
    only = job.get("only")
    seqs = [list(s) for d in range(1, depth + 1) for s in itertools.product(ops, repeat=d)]
    salts = set()
    for seq in seqs:
        if only is not None and only != seq:
            continue
        schema = _world(alg, default=DFL)
        cfg = schema()
        held = DFL
        fp = "C09|%s|seq|%s|" % (alg, fmt)
        case = _case(job, seq)

        def bad(what, msg):
            ctx.violation(fp + what, "sequence %s: %s" % (seq, msg), case, size=len(seq))
        ok = True
        prev = cfg.pw
        for i, op in enumerate(seq):
            try:
                if op == "assign-p":
                    cfg.pw = P; held = P
                elif op == "assign-bytes-p":
                    cfg.pw = P.encode(); held = P
                elif op == "assign-q":
                    cfg.pw = Q; held = Q
                elif op == "reset":
                    cc.reset_value(cfg, "pw"); held = DFL
                elif op == "load-plain-q":
                    cfg.load_tree({"pw": Q}); held = Q
                elif op == "saveload":
                    out = cfg.dumps(fmt)
                    for s in (P, Q, DFL):
                        scan_output(bad, out, s, "dumps(%s) at step %d" % (fmt, i))
                    fresh = schema()
                    fresh.loads(out, fmt)
                    if fresh.pw.salt != cfg.pw.salt or fresh.pw.digest != cfg.pw.digest:
                        bad("reload-changed", "salt/digest changed across save+load at step %d" % i)
                    cfg = fresh
            except Exception as exc:  # noqa
                bad("op-raises|" + op, "step %d (%s) raised %r" % (i, op, exc))
                ok = False
                break
            ctx.transitions += 1
            cur = cfg.pw
            fresh_salt = op != "saveload"
            if not check_digest(ctx, bad, alg, cur, held, [P, Q, DFL], None, "after step %d (%s)" % (i, op)):
                ok = False
                break
            if fresh_salt:
                if cur.salt in salts:
                    bad("salt-reused", "step %d (%s): salt was used before" % (i, op))
                salts.add(cur.salt)
            prev = cur
        ctx.case((alg, fmt, tuple(seq)), "seq:%d:%s" % (len(seq), "ok" if ok else "raises"), True)
        ctx.states += 1
    ctx.traces += len(seqs)
    ctx.depth = depth
    ctx.sample({"algorithm": alg, "format": fmt, "sequence": seqs[-1]})
