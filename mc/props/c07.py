"""
C07 - key files: used verbatim, created once, rejected if malformed, never retained.

Explicit-state search to closure.  The reference machine (KFModel: file content x per-object nesting
depth and key, generated keys symbolic and alpha-renamed) is explored breadth-first on its own, which
yields every reachable state with a shortest history; every (state, operation) pair is then executed
on real KeyFile objects over a real file, the state being re-materialised by replaying the history,
and compared with the machine's expectation; invariants (file bytes, key actually used, no retained
key material) are evaluated after every step.
"""
import collections
import os

PROP = "C07"
LEVEL = "model_checking"
RULE = ("every (state, operation) pair of the key-file machine: states = reachable (file content, per-object depth "
        "and key, stored ciphertext keys) up to the nesting bound, closed under the alphabet; non-trivial = the "
        "operation changes the machine state or raises; distinct = distinct (state, operation)")
ASSUMPTIONS = [
    "the file system of the scratch directory behaves like a POSIX file system",
    "an 'unwritable directory' is modelled by a missing parent directory (the sandbox runs as root)",
    "key material = any non-empty bytes-like attribute value reachable from vars(KeyFile object)",
]

KEY_A = bytes(range(32))
KEY_B = b" \t" + bytes(255 - i for i in range(28)) + b"\r\n"      # white space at either end is key material like any other byte
PLAIN = bytes((7 * i + 3) % 256 for i in range(64))
MAX_FAILED = 1
FILE_ALPHABET = ["absent", "A", "B", "bad0", "bad10", "bad16", "bad24", "bad31", "bad33", "bad64", "nodir"]      # 16 / 24: AES key sizes, but not key files


def content_of(sym, binding):
    if sym == "A":
        return KEY_A
    if sym == "B":
        return KEY_B
    if sym.startswith("bad"):
        return b"k" * int(sym[3:])
    return binding.get(sym, b"")         # a key the machine says was generated but that never reached the file: matches nothing


# ---------------------------------------------------------------------------------------------
# the reference machine
# ---------------------------------------------------------------------------------------------
class KFModel:
    def __init__(self, nobj):
        self.file = "absent"
        self.objs = [[0, None, 0] for _ in range(nobj)]     # depth, key, number of failed opens (capped, history only)
        self.store = []      # key symbols for which a ciphertext of PLAIN is held
        self.gen = 0

    def clone(self):
        m = KFModel(0)
        m.file, m.objs, m.store, m.gen = self.file, [list(o) for o in self.objs], list(self.store), self.gen
        return m

    def live(self):
        s = {"A", "B"}
        if self.file not in ("absent", "nodir") and not self.file.startswith("bad"):
            s.add(self.file)
        for d, k, _f in self.objs:
            if k:
                s.add(k)
        return s

    def prune(self):
        live = self.live()
        self.store = [k for k in self.store if k in live]

    def canon(self):
        ren = {}

        def r(k):
            if k is None or not k.startswith("G"):
                return k
            if k not in ren:
                ren[k] = "g%d" % (len(ren) + 1)
            return ren[k]
        f = r(self.file)
        objs = tuple((d, r(k), f) for d, k, f in self.objs)
        store = tuple(sorted(r(k) for k in self.store))
        return (f, objs, store)

    def enabled(self, maxdepth):
        ops = []
        for i, (d, k, _f) in enumerate(self.objs):
            if d < maxdepth:
                ops.append(["enter", i])
            if d > 0:
                ops.append(["exit", i])
                ops.append(["exitx", i])      # the block is left through an exception
            ops.append(["encrypt", i])
            ops.append(["encrypt0", i])       # the empty plaintext is a plaintext like any other: only inside an open context
            ops.append(["generate", i])       # the public request for a new key file: replaces the file, never the session's key
            for s in self.store:
                ops.append(["decrypt", i, s])
            if d == 0:
                ops.append(["new", i])
        for x in FILE_ALPHABET:
            if x != self.file:
                ops.append(["setfile", x])
        return ops

    def step(self, op):
        """-> expectation: ("ok", info) | ("raise", kind)"""
        name = op[0]
        if name == "setfile":
            self.file = op[1]
            self.prune()
            return ("ok", None)
        o = self.objs[op[1]]
        if name == "enter":
            if o[1] is None:
                if self.file == "absent":
                    self.gen += 1
                    g = "G%d" % self.gen
                    self.file = g
                    o[1] = g
                elif self.file == "nodir":
                    o[2] = min(o[2] + 1, MAX_FAILED)
                    return ("raise", "cannot-create")
                elif self.file.startswith("bad"):
                    o[2] = min(o[2] + 1, MAX_FAILED)
                    return ("raise", "EncryptionError")
                else:
                    o[1] = self.file
            o[0] += 1
            return ("ok", None)
        if name in ("exit", "exitx"):
            o[0] -= 1
            if o[0] == 0:
                o[1] = None
                self.prune()
            return ("ok", None)
        if name == "generate":
            if self.file == "nodir":
                return ("raise", "cannot-create")
            self.gen += 1
            self.file = "G%d" % self.gen
            self.prune()
            return ("ok", None)
        if name == "encrypt0":
            return ("raise", "not-open") if o[0] == 0 else ("ok", None)
        if name == "encrypt":
            if o[0] == 0:
                return ("raise", "not-open")
            if o[1] not in self.store:
                self.store.append(o[1])
            return ("ok", o[1])
        if name == "decrypt":
            if o[0] == 0:
                return ("raise", "not-open")
            return ("ok", o[1] == op[2])
        if name == "new":
            o[0], o[1], o[2] = 0, None, 0
            return ("ok", None)
        raise ValueError(op)


def reachable(nobj, maxdepth):
    m0 = KFModel(nobj)
    seen = {m0.canon(): []}
    order = [[]]
    frontier = collections.deque([[]])
    while frontier:
        hist = frontier.popleft()
        base = KFModel(nobj)
        for h in hist:
            base.step(h)
        for op in base.enabled(maxdepth):
            m = base.clone()
            m.step(op)
            c = m.canon()
            if c not in seen:
                seen[c] = hist + [op]
                order.append(hist + [op])
                frontier.append(hist + [op])
    return order


# ---------------------------------------------------------------------------------------------
# the real world
# ---------------------------------------------------------------------------------------------
class World:
    def __init__(self, tmp, nobj, aes=True):
        from cincoconfig import KeyFile
        import cincoconfig.encryption as enc_mod
        enc_mod.AES_AVAILABLE = bool(aes) and _AES_REALLY[0]     # the optional AES back end absent: key files are judged the same
        self.KeyFile = KeyFile
        from mc import core
        # the directory lives under the (private) home directory: odd-numbered objects name the same file home-relative
        # ... and its name and the file's name contain `$NAME` / `${NAME}` with NAME set: the name is used verbatim
        os.environ["C07VAR"] = "expanded"
        # ... and the spelling given to the objects goes through a symbolic link and back up (`current -> releases/7`, so
        # `current/..` is `releases`, not the directory that holds the link): the operating system resolves the name, nobody else
        top = os.path.join(core.home_dir(), "kd$C07VAR")
        self.dir = os.path.join(top, "releases")
        self.path = os.path.join(self.dir, "app${C07VAR}.key")
        spelled = os.path.join(top, "current", "..", "app${C07VAR}.key")
        self.names = [spelled if i % 2 == 0 else "~/kd$C07VAR/current/../app${C07VAR}.key" for i in range(nobj)]
        if not aes:
            import pathlib
            self.names[0] = pathlib.Path("~/kd$C07VAR/current/../app${C07VAR}.key")        # a (home-relative) path object instead of a string (the one-object jobs)
        import shutil
        shutil.rmtree(top, ignore_errors=True)
        os.makedirs(os.path.join(self.dir, "7"))
        os.symlink(os.path.join("releases", "7"), os.path.join(top, "current"))
        self.objs = [KeyFile(self.names[i]) for i in range(nobj)]
        self.model = KFModel(nobj)
        self.binding = {}
        self.cts = {}

    def read_file(self):
        if not os.path.isdir(self.dir):
            return "nodir"
        try:
            with open(self.path, "rb") as fh:
                return fh.read()
        except FileNotFoundError:
            return None

    def set_file(self, x):
        import shutil
        if x == "nodir":
            shutil.rmtree(self.dir, ignore_errors=True)
            return
        os.makedirs(os.path.join(self.dir, "7"), exist_ok=True)
        if x == "absent":
            if os.path.exists(self.path):
                os.unlink(self.path)
            return
        with open(self.path, "wb") as fh:
            fh.write(content_of(x, self.binding))
        os.utime(self.path, ns=(10 ** 18, 10 ** 18))       # every version of the file carries the same time stamp (a restored backup, `cp -p`)

    def real_step(self, op):
        """Execute on the implementation; -> ("ok", value) | ("raise", exc)"""
        name = op[0]
        try:
            if name == "setfile":
                self.set_file(op[1])
                return ("ok", None)
            o = self.objs[op[1]]
            if name == "enter":
                r = o.__enter__()
                return ("ok", r)
            if name == "exit":
                o.__exit__(None, None, None)
                return ("ok", None)
            if name == "exitx":
                err = RuntimeError("the block failed")
                r = o.__exit__(RuntimeError, err, None)
                return ("ok", None) if not r else ("raise", AssertionError("__exit__ swallowed the exception"))
            if name == "generate":
                r = o.generate_key()
                return ("ok", None) if r is None else ("raise", AssertionError("generate_key returned %r" % (r,)))
            if name == "encrypt0":
                sv = o.encrypt(b"", method="xor")
                return ("ok", None) if getattr(sv, "ciphertext", None) == b"" and getattr(sv, "method", None) == "xor" else ("raise", AssertionError("odd value %r" % (sv,)))
            if name == "encrypt":
                sv = o.encrypt(PLAIN, method="xor")
                return ("ok", sv)
            if name == "decrypt":
                from cincoconfig.encryption import SecureValue
                return ("ok", o.decrypt(SecureValue("xor", self.cts[op[2]])))
            if name == "new":
                self.objs[op[1]] = self.KeyFile(self.names[op[1]])
                return ("ok", None)
        except Exception as exc:  # noqa
            return ("raise", exc)
        raise ValueError(op)


def _aes_really():
    import cincoconfig.encryption as enc_mod
    return bool(enc_mod.AES_AVAILABLE)


_AES_REALLY = [True]


def key_material(obj, _depth=0):
    """Non-empty bytes-like values reachable from the object's attributes."""
    found = []

    def walk(v, d):
        if isinstance(v, (bytes, bytearray, memoryview)):
            if len(v) > 0:
                found.append(bytes(v))
        elif isinstance(v, (list, tuple, set, frozenset)) and d < 3:
            for x in v:
                walk(x, d + 1)
        elif isinstance(v, dict) and d < 3:
            for x in v.values():
                walk(x, d + 1)
        elif hasattr(v, "__dict__") and d < 2 and not isinstance(v, type) and type(v).__module__.startswith("cincoconfig"):
            for x in vars(v).values():
                walk(x, d + 1)
    for val in vars(obj).values():
        walk(val, 0)
    return found


def xor_key(ct):
    return bytes(a ^ b for a, b in zip(ct, PLAIN))


# ---------------------------------------------------------------------------------------------
def bounds(tier):
    return {"objects": 3 if tier == "thorough" else 2, "max_nesting": 2, "failed_opens_remembered": MAX_FAILED,
            "file_alphabet": FILE_ALPHABET}


def jobs(tier):
    b = bounds(tier)
    states = reachable(b["objects"], b["max_nesting"])
    n = 64 if tier == "thorough" else 16
    out = []
    for c in range(n):
        chunk = states[c::n]
        if chunk:
            out.append({"name": "kf/%02d" % c, "states": chunk, "nobj": b["objects"], "maxdepth": b["max_nesting"],
                        "total_states": len(states)})
    # the same machine with one object while the optional AES back end is reported absent
    states1 = reachable(1, b["max_nesting"])
    m = 4
    for c in range(m):
        chunk = states1[c::m]
        if chunk:
            out.append({"name": "kf-noaes/%02d" % c, "states": chunk, "nobj": 1, "maxdepth": b["max_nesting"], "total_states": len(states1), "aes": False})
    if tier == "thorough":
        out.append({"name": "tla-conformance", "tla": True})
    return out


def run_job(job, ctx):
    single = job.get("single")
    if single and "tla_labels" in single:
        from mc.props import c07_tla
        c07_tla.replay_single(ctx, single["tla_labels"])
        return
    if single:
        check(ctx, single["nobj"], single["hist"], single["op"], single.get("aes", True))
        return
    if job.get("tla"):
        from mc.props import c07_tla
        c07_tla.run(ctx)
        return
    ctx.states += len(job["states"])
    for hist in job["states"]:
        ctx.depth = max(ctx.depth, len(hist) + 1)
        m = KFModel(job["nobj"])
        for h in hist:
            m.step(h)
        for op in m.enabled(job["maxdepth"]):
            check(ctx, job["nobj"], hist, op, job.get("aes", True))
    ctx.sample({"history": job["states"][-1], "objects": job["nobj"]})
    ctx.closed = True


def _sync(w, op, exp, real):
    """After a step both sides agree on: learn generated keys, record ciphertexts."""
    if op[0] == "generate" and exp[0] == "ok":
        sym = w.model.file
        data = w.read_file()
        if sym not in w.binding and isinstance(data, bytes):
            w.binding[sym] = data
    if op[0] == "enter" and exp[0] == "ok":
        sym = w.model.objs[op[1]][1]
        if sym.startswith("G") and sym not in w.binding:
            data = w.read_file()
            if isinstance(data, bytes):
                w.binding[sym] = data
    if op[0] == "encrypt" and exp[0] == "ok" and real[0] == "ok":
        w.cts[exp[1]] = real[1].ciphertext
    live = w.model.live()
    for k in list(w.cts):
        if k not in live:
            del w.cts[k]


def check(ctx, nobj, hist, op, aes=True):
    w = World(ctx.tmp, nobj, aes)
    case = {"nobj": nobj, "hist": hist, "op": op, "job": "kf", "aes": aes}
    # replay the history (each of these transitions is checked in its own right elsewhere)
    for h in hist:
        exp = w.model.step(h)
        real = w.real_step(h)
        if (exp[0] == "ok") != (real[0] == "ok"):
            ctx.case((hist, op), "prefix-diverged", False)
            return
        _sync(w, h, exp, real)
    before = w.model.canon()
    file_before = w.read_file()
    exp = w.model.step(op)
    real = w.real_step(op)
    ctx.transitions += 1
    ctx.traces += 1
    after = w.model.canon()
    ctx.case((tuple(map(tuple, hist)), tuple(op), aes), "%s:%s" % (op[0], exp[0] if exp[0] == "ok" else exp[1]),
             after != before or exp[0] == "raise")
    filestate = w.model.file if not w.model.file.startswith("G") else "generated"
    fp = "C07|%s%s|file=%s|" % ("" if aes else "no-aes|", op[0], before[0] if not str(before[0]).startswith("g") else "generated")

    def bad(what, msg):
        ctx.violation(fp + what, "after %s, %s: %s" % (hist, op, msg), case, size=len(hist))

    # ---- outcome
    if exp[0] == "raise" and real[0] == "ok":
        bad("no-error", "expected an error (%s) but the call returned %r" % (exp[1], real[1]))
    elif exp[0] == "ok" and real[0] == "raise":
        bad("unexpected-" + type(real[1]).__name__, "raised %r" % (real[1],))
        return
    elif exp[0] == "raise":
        if exp[1] == "EncryptionError" and type(real[1]).__name__ != "EncryptionError":
            bad("wrong-error-class", "malformed key file raised %s, not an EncryptionError" % type(real[1]).__name__)
    else:
        _sync(w, op, exp, real)
        if op[0] == "encrypt":
            sv = real[1]
            if getattr(sv, "method", None) != "xor":
                bad("method", "recorded method %r" % (getattr(sv, "method", None),))
            elif xor_key(sv.ciphertext) != content_of(exp[1], w.binding) * 2:
                bad("key-not-verbatim", "key recovered from the XOR ciphertext differs from the key file content")
        if op[0] == "decrypt":
            same = real[1] == PLAIN
            if same != exp[1]:
                bad("decrypt-result", "decrypt gave the plaintext: %s, expected %s" % (same, exp[1]))
    # ---- invariants on the resulting state
    data = w.read_file()
    mf = w.model.file
    if mf == "absent":
        if data is not None:
            bad("file-created", "a key file appeared (%r)" % (data,))
    elif mf == "nodir":
        if data != "nodir":
            bad("dir-created", "the missing directory was created")
    elif mf.startswith("G") and mf not in w.binding:
        bad("not-generated", "no 32-byte key file was created (found %r)" % (data,))
    else:
        want = content_of(mf, w.binding)
        if data != want:
            bad("file-modified", "key file content changed: %r, expected %r" % (data, want))
        if mf.startswith("G"):
            if len(want) != 32:
                bad("generated-size", "generated key file has %d bytes" % len(want))
            others = [KEY_A, KEY_B] + [v for k, v in w.binding.items() if k != mf]
            if want in others:
                bad("generated-not-fresh", "generated key repeats an earlier key")
    for i, (d, k, _f) in enumerate(w.model.objs):
        obj = w.objs[i]
        if d == 0:
            km = key_material(obj)
            if km:
                bad("key-retained", "object %d holds key material %r with no open context" % (i, km[0][:8]))
            pr = w.real_step(["encrypt", i])
            if pr[0] == "ok":
                bad("encrypt-outside-context", "encrypt succeeded with no open context on object %d" % i)
        else:
            pr = w.real_step(["encrypt", i])
            if pr[0] != "ok":
                bad("encrypt-fails-in-context", "encrypt raised %r inside an open context" % (pr[1],))
            elif xor_key(pr[1].ciphertext) != content_of(k, w.binding) * 2:
                bad("wrong-key-in-use", "object %d encrypts with a key other than the one loaded for its session" % i)
