"""
C01 - every value a configuration holds satisfies its field's declared constraints.

Breadth-first search over operation histories (every route x valid / normalising / invalid values,
in-place list/dict mutators incl. "compatible proxy" arguments) on every shape x catalogue leaf.
State invariant: walking the configuration through the public readers, every value is unset or a
normal form accepted by the independent reference (mc/ref/fields.py).  Transition oracle: an accepted
assignment is read back as the reference normal form and changes no other field.
"""
from mc import cfgworld as W
from mc import values as V
from mc.ref import fields as R

PROP = "C01"
LEVEL = "model_checking"
RULE = ("BFS over operation histories per (shape, leaf kind) with canonical-state de-duplication; every transition "
        "executes the real operation; non-trivial = the operation was accepted and changed the state, or was rejected; "
        "distinct = distinct (shape, leaf, state, operation)")
ASSUMPTIONS = ["reference validators in mc/ref/fields.py", "declared defaults are valid and in normal form (premise of the property)"]


def bounds(tier):
    return {"shapes": W.SHAPES, "leaves": [l for l in W.catalogue() if not l.endswith("-rawdflt")] if tier == "thorough" else W.quick_leaves() + ["list-int-cd", "dict-typed-cd", "list-bytes", "dict-any"],
            "depth": 3 if tier == "thorough" else 2}


def jobs(tier):
    b = bounds(tier)
    out = []
    for sh in b["shapes"]:
        for leaf in b["leaves"]:
            out.append({"name": "%s/%s" % (sh, leaf), "shape": sh, "leaf": leaf, "depth": b["depth"], "tier": tier})
    for sh in ("nested+late", "cfglist+late", "nested+env", "nested+off"):       # schema grown after first use / empty bound variables
        for leaf in ["int09", "str-norm", "list-int", "dict-typed", "bool"]:
            out.append({"name": "%s/%s" % (sh, leaf), "shape": sh, "leaf": leaf, "depth": b["depth"], "tier": tier})
    for leaf in ["int09", "str-norm", "list-int", "dict-typed", "bool", "net"]:
        out.append({"name": "late-decl/%s" % leaf, "kind": "late-decl", "leaf": leaf})
    out.append({"name": "file-world", "kind": "file-world"})
    if tier != "thorough":
        for leaf in W.option_leaves():
            for sh in ("flat", "cfglist"):
                out.append({"name": "%s/%s" % (sh, leaf), "shape": sh, "leaf": leaf, "depth": b["depth"], "tier": tier})
    return out


class Monitor:
    def __init__(self, shape, leaf, tier):
        self.shape, self.leaf, self.tier = shape, leaf, tier
        self.spec = W.shape(shape, leaf)
        self.lspec = W.catalogue()[leaf][0]

    def case(self, hist, op):
        return {"shape": self.shape, "leaf": self.leaf, "hist": hist, "op": op, "tier": self.tier, "job": "%s/%s" % (self.shape, self.leaf)}

    def ctor_failed(self, ctx, spec, init, exc):
        ctx.case((self.shape, self.leaf, "init", repr(init)), "ctor:rejected", True)
        for key, vspec in (init or {}).items():
            f = W.subspec(self.spec, key)
            if f is None or f["k"] in ("Schema", "CType"):
                continue
            fs = dict(f); fs["o"] = {a: b for a, b in f.get("o", {}).items() if a not in ("default", "default_callable")}
            if R.ref_validate(fs, V.dec(vspec))[0] == "ok":
                ctx.violation("C01|%s|%s|ctor-rejects-valid" % (self.shape, self.leaf),
                              "constructor keyword %s=%s is valid for its field but construction raised %r" % (key, V.show(V.dec(vspec), 40), exc),
                              self.case([["init", init]], None))

    def check_ctor(self, ctx, w, hist):
        init = hist[0][1] or {}
        for key, vspec in init.items():
            f = W.subspec(self.spec, key)
            if f is None or f["k"] in ("Schema", "CType"):
                continue
            fs = dict(f); fs["o"] = {a: b for a, b in f.get("o", {}).items() if a not in ("default", "default_callable")}
            ref = R.ref_validate(fs, w.dec(vspec))
            got = getattr(w.cfg, key)
            if ref[0] == "rej":
                ctx.violation("C01|%s|%s|accepted-invalid|ctor" % (self.shape, self.leaf),
                              "constructor keyword %s=%s was accepted although %s; the field reads %s" % (key, V.show(w.dec(vspec), 40), ref[1], V.show(got, 40)),
                              self.case(hist, None))
            elif ref[0] == "ok" and not R.matches(got, ref[1]):
                ctx.violation("C01|%s|%s|not-normalised|ctor" % (self.shape, self.leaf),
                              "constructor keyword %s=%s reads back as %s, expected the normal form %s" % (key, V.show(w.dec(vspec), 40), V.show(got, 40), V.show(ref[1], 40)),
                              self.case(hist, None))

    def state(self, ctx, w, hist):
        if len(hist) == 1:
            self.check_ctor(ctx, w, hist)
        for path, value, why in W.invalid_values(w.cfg, self.spec):
            last = hist[-1]
            ctx.violation("C01|%s|%s|invalid-value|%s" % (self.shape, self.leaf, _opkey(last)),
                          "after %s the value at %s is %s, which %s" % (hist, path, V.show(value, 50), why),
                          self.case(hist[:-1] if len(hist) > 1 else hist, last if len(hist) > 1 else None), size=len(hist))

    def step(self, ctx, before, before_ids, op, outcome, w, hist):
        after = W.snapshot(w.cfg)
        changed = after != before
        ctx.case((self.shape, self.leaf, repr(before), repr(op)),
                 "%s:%s" % (op[0] if op[0] != "mut" else "mut-" + op[2], "ok" if outcome[0] == "ok" else "rejected"),
                 changed or outcome[0] == "raise")
        if outcome[0] != "ok":
            return
        target = _target(op, self.spec)
        if target is None:
            return
        path, vspec = target
        f = W.subspec(self.spec, path)
        diffs = W.diff_paths(before, after)
        scope = path.split("[")[0]
        if op[0] in ("load_tree", "loads") and "." in scope:
            # a nested map in a tree replaces the sub-configuration it names: its other fields may
            # go back to their defaults (not demanded either way); everything outside must not move
            scope = scope.split(".")[0]

        def ours(d):
            base = d.split("#")[0]
            if base == scope or base.startswith(scope + "."):
                return True
            return d.endswith("#mark") and scope.startswith(base + ".")   # user-defined mark of an ancestor
        stray = [d for d in diffs if not ours(d)]
        if stray:
            ctx.violation("C01|%s|%s|changes-other-field|%s" % (self.shape, self.leaf, _opkey(op)),
                          "after %s, %s also changed %s" % (hist, op, stray), self.case(hist, op), size=len(hist))
        if f is None or vspec is None or f["k"] in ("Schema", "CType") or op[0] == "cmdline" and False:
            return
        if f["k"] == "List" and isinstance(f.get("item"), dict) and f["item"]["k"] in ("Schema", "CType"):
            return
        value = w.dec(vspec)
        fs = {k: v for k, v in f.items()}
        fs["o"] = {a: b for a, b in f.get("o", {}).items() if a not in ("default", "default_callable")}
        if op[0] in ("load_tree", "loads"):
            value = _to_python_ref(fs, value)
        ref = R.ref_validate(fs, value)
        got = W.chained(w.cfg, path)
        if ref[0] == "rej" and op[0] in ("load_tree", "loads"):
            # a tree value of the wrong shape that the loader coerces is judged by the state invariant; a load that stores
            # the rejected value exactly as it was given (an empty list under required=True, ...) is judged here
            if type(got) in (list, dict, str, int, float, bool) or type(got).__name__ in ("ListProxy", "DictProxy"):
                if V.canon(V.plain(got)) == V.canon(V.plain(value)) and type(V.plain(got)) is type(V.plain(value)):
                    ctx.violation("C01|%s|%s|accepted-invalid|%s" % (self.shape, self.leaf, _opkey(op)),
                                  "after %s, %s was accepted and the field holds the given value %s although %s"
                                  % (hist, op, V.show(value, 40), ref[1]), self.case(hist, op), size=len(hist))
            return
        if ref[0] == "rej":
            ctx.violation("C01|%s|%s|accepted-invalid|%s" % (self.shape, self.leaf, _opkey(op)),
                          "after %s, %s was accepted although the value %s (%s); the field now reads %s"
                          % (hist, op, V.show(value, 40), ref[1], V.show(got, 40)), self.case(hist, op), size=len(hist))
        elif ref[0] == "ok" and not R.matches(got, ref[1]):
            ctx.violation("C01|%s|%s|not-normalised|%s" % (self.shape, self.leaf, _opkey(op)),
                          "after %s, %s: the field reads %s, expected the normal form %s"
                          % (hist, op, V.show(got, 40), V.show(ref[1], 40)), self.case(hist, op), size=len(hist))


def _to_python_ref(fs, value):
    """on-disk form -> Python form for the few kinds where they differ (documents carry the encoded form)"""
    import base64
    if fs["k"] == "Bytes" and isinstance(value, str):
        try:
            return base64.b64decode(value) if fs.get("o", {}).get("encoding", "base64") == "base64" else bytes.fromhex(value)
        except Exception:  # noqa
            return V.Opaque()
    return value


def _target(op, spec):
    """(path, value spec) an accepted operation is aimed at, or None"""
    if op[0] in ("set", "setitem"):
        return op[1], op[2]
    if op[0] in ("load_tree", "loads"):
        t = op[1] if op[0] == "load_tree" else op[2]
        path = []
        while isinstance(t, dict) and t.get("$") == "d" and len(t["v"]) == 1:
            path.append(t["v"][0][0])
            t = t["v"][0][1]
            f = W.subspec(spec, ".".join(path))
            if f is None or f["k"] not in ("Schema", "CType"):
                break
        if not path:
            return None
        f = W.subspec(spec, ".".join(path))
        return ".".join(path), (t if f is not None and f["k"] not in ("Schema", "CType") else None)
    if op[0] == "cmdline":
        return (op[2], op[3]) if len(op) > 3 else None
    if op[0] in ("mut", "reset", "setcfg", "from-sibling", "selfset", "augset"):
        return op[1], None
    if op[0] == "itemset":
        return op[1], None
    return None


def _opkey(op):
    if op is None:
        return "init"
    if op[0] == "init":
        return "ctor:" + ",".join(sorted((op[1] or {}).keys()))
    if op[0] == "mut":
        return "mut-%s(%s)" % (op[2], ",".join(_shape(a) for a in op[3:]))
    if op[0] in ("set", "setitem", "setcfg"):
        return "%s(%s)" % (op[0], _shape(op[2]))
    if op[0] in ("load_tree", "loads"):
        return op[0] + ("-novalidate" if len(op) > 2 and op[2] == "nv" else "")
    return op[0]


def _shape(a):
    if isinstance(a, dict) and "$" in a:
        return a["$"] if a["$"] not in ("d",) else "map"
    return type(a).__name__


def _late_declaration(job, ctx):
    """a dynamic configuration already holds an ad-hoc value under a key (at the root / in a dynamic sub-configuration); the
    schema then declares that key as a constrained field; every later write to the key on the *old* configuration, by any
    route, is held to the declared field: rejected, or stored in normal form"""
    import cincoconfig as cc
    leaf = job["leaf"]
    lspec, valid, invalid = W.catalogue()[leaf]
    fs = {"k": lspec["k"], "o": {a: b for a, b in lspec.get("o", {}).items() if a not in ("default", "default_callable", "required")}}
    for extra in ("item", "key", "val"):
        if extra in lspec:
            fs[extra] = lspec[extra]
    only = job.get("only")
    for where in ("root", "dyn"):
        for vi, vspec in enumerate(list(valid) + list(invalid)):
            for route in ("attr", "item", "load_tree", "loads"):
                ident = [where, vi, route]
                if only is not None and only != ident:
                    continue
                if route in ("load_tree", "loads") and not W._jsonlike(vspec):
                    continue
                s = cc.Schema(dynamic=True)
                s.dyn = cc.Schema(dynamic=True)
                s.w = cc.IntField(default=1)
                cfg = s()
                holder = cfg if where == "root" else cfg.dyn
                holder.adhoc = None                    # the ad-hoc key exists before the schema knows it
                (s if where == "root" else s.dyn).adhoc = W.Built({"fields": []})._leaf(dict(lspec, o=dict(fs["o"])))
                value = V.dec(vspec)
                path = "adhoc" if where == "root" else "dyn.adhoc"
                ref = R.ref_validate(fs, V.dec(vspec))
                ctx.transitions += 1
                try:
                    if route == "attr":
                        setattr(holder, "adhoc", value)
                    elif route == "item":
                        cfg[path] = value
                    elif route == "load_tree":
                        cfg.load_tree(W.tree_for(path, vspec) if False else ({"adhoc": value} if where == "root" else {"dyn": {"adhoc": value}}))
                    else:
                        import json as _json
                        cfg.loads(_json.dumps({"adhoc": value} if where == "root" else {"dyn": {"adhoc": value}}), "json")
                    raised = None
                except Exception as exc:  # noqa
                    raised = exc
                got = getattr((cfg if where == "root" else cfg.dyn), "adhoc", None)
                ctx.case(("late-decl", leaf, where, vi, route), "late-decl:%s:%s" % (route, "raised" if raised else "stored"), True)
                case = {"kind": "late-decl", "jobparams_full": {k: v for k, v in job.items() if k not in ("single", "only")}, "only": ident, "job": job["name"]}
                if ref[0] == "rej" and got is not None and not isinstance(got, type(None)):
                    ok_stored = R.ref_validate(fs, got)[0] == "ok" and R.matches(got, R.ref_validate(fs, got)[1])
                    if not ok_stored:
                        ctx.violation("C01|late-decl|%s|%s|invalid-stored" % (leaf, route), "the key %s was declared as a %s field after the configuration held an ad-hoc value; "
                                      "%s write of %s %s and the configuration now holds %s, which violates the field (%s)"
                                      % (path, lspec["k"], route, V.show(value, 40), "raised %r" % (raised,) if raised else "was accepted", V.show(got, 40), ref[1]), case)
                elif ref[0] == "ok" and raised is None and not R.matches(got, ref[1]):
                    ctx.violation("C01|late-decl|%s|%s|not-normalised" % (leaf, route), "late-declared key %s: %s write of %s reads back as %s, expected the normal form %s"
                                  % (path, route, V.show(value, 40), V.show(got, 40), V.show(ref[1], 40)), case)
    ctx.sample({"late_declaration": leaf})


def _file_world(job, ctx):
    """the directory a file-name field looks into changes between assignments (a file appears, disappears, appears again):
    every assignment - on the configuration that saw the earlier state and on another one built from the same schema, by
    every route - is judged against the directory as it is at that moment"""
    import itertools
    import json
    import os
    import cincoconfig as cc
    only = job.get("only")
    d = os.path.join(ctx.tmp, "fw2")
    os.makedirs(d, exist_ok=True)
    target = os.path.join(d, "probe.log")
    for exists in (True, "file", False):
        for events in itertools.product(("create", "remove"), repeat=3):
            for start in ("present", "absent"):
                ident = [repr(exists), list(events), start]
                if only is not None and only != ident:
                    continue
                s = cc.Schema()
                s.f = cc.FilenameField(exists=exists, startdir=d)
                s.l = cc.ListField(cc.FilenameField(exists=exists, startdir=d))
                s.sub.f = cc.FilenameField(exists=exists, startdir=d)
                a, b = s(), s()
                b.l = []

                def world(state):
                    if state == "present":
                        open(target, "w").close()
                    elif os.path.exists(target):
                        os.unlink(target)
                world(start)
                case = {"kind": "file-world", "jobparams_full": {k: v for k, v in job.items() if k not in ("single", "only")}, "only": ident, "job": job["name"]}
                for step, ev in enumerate(("probe",) + events):
                    if ev != "probe":
                        world("present" if ev == "create" else "absent")
                    there = os.path.exists(target)
                    should = (there if exists in (True, "file") else not there)
                    routes = {"attr": lambda c: setattr(c, "f", "probe.log"), "dotted": lambda c: c.__setitem__("sub.f", "probe.log"),
                              "load_tree": lambda c: c.load_tree({"f": "probe.log"}), "loads": lambda c: c.loads(json.dumps({"sub": {"f": "probe.log"}}), "json"),
                              "append": lambda c: c.l.append("probe.log"), "absolute": lambda c: setattr(c, "f", target)}
                    for rname, route in routes.items():
                        for who, cfg in (("same", a), ("other", b)):
                            if rname == "append" and who == "same":
                                continue
                            ctx.transitions += 1
                            try:
                                route(cfg)
                                ok = True
                            except Exception:  # noqa
                                ok = False
                            ctx.case(("file-world", repr(exists), start, events[:step], rname, who), "file-world:%s" % ("accepted" if ok else "rejected"), True)
                            if ok != should:
                                ctx.violation("C01|file-world|exists=%r|%s|%s|%s" % (exists, rname, who, "accepted-invalid" if ok else "rejects-valid"),
                                              "exists=%r, directory history %s then %s: the file is %s now, but %s on the %s configuration was %s"
                                              % (exists, start, list(events[:step]), "there" if there else "not there", rname, who, "accepted" if ok else "rejected"), case, size=step)
    ctx.states += 1
    ctx.traces += 1


def run_job(job, ctx):
    single = job.get("single")
    if single and single.get("kind") == "file-world":
        j = dict(single["jobparams_full"]); j["only"] = single["only"]
        return _file_world(j, ctx)
    if job.get("kind") == "file-world":
        return _file_world(job, ctx)
    if single and single.get("kind") == "late-decl":
        j = dict(single["jobparams_full"]); j["only"] = single["only"]
        return _late_declaration(j, ctx)
    if job.get("kind") == "late-decl":
        return _late_declaration(job, ctx)
    if single:
        m = Monitor(single["shape"], single["leaf"], single.get("tier", "quick"))
        hist = single["hist"]
        W.explore(ctx, m.spec, single["leaf"], 0, m, only=(hist, single["op"]))
        return
    m = Monitor(job["shape"], job["leaf"], job["tier"])
    n, nops = W.explore(ctx, m.spec, job["leaf"], job["depth"], m, tier=job["tier"], share_schema=True)
    ctx.sample({"shape": job["shape"], "leaf": job["leaf"], "states": n, "operations_per_state": nops,
                "example_ops": W.ops_for(m.spec, job["leaf"], job["tier"])[:3]})
