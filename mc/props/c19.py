"""
C19 - a failed save never damages the file on disk; a successful one loads back.

Fault enumeration.  For every (configuration state, format, prior destination) a fault-free save numbers
the steps serialisation goes through (Config.dumps / to_tree at every depth, every field's to_basic,
ConfigFormat.get, key-file __enter__, encrypt, the formatter's dumps, expanduser); then one execution per
(step index, exception class) injects the exception at exactly that step, with the destination already
holding a previous save.  Natural faults (un-encodable values per format, malformed key file, key path
that is a directory, unknown format) are enumerated too.
"""
import os

from mc import core
from mc import values as V
from mc import cfgworld as W

PROP = "C19"
LEVEL = "fault_enumeration"
RULE = ("every step index of the fault-free serialisation x exception class x configuration state x format x prior "
        "destination, plus natural faults; non-trivial = a fault was injected or arose (every case but the fault-free "
        "baseline); distinct = distinct (state, format, destination, step, exception class)")
ASSUMPTIONS = ["steps are observed by wrapping public methods from the harness (no hook in the repository)",
               "file identity = bytes, existence, inode and mtime of the destination; write-opens observed through the audit hook"]


class Injected(Exception):
    pass


class Injector:
    def __init__(self):
        self.active = False
        self.count = 0
        self.target = None
        self.exc = None
        self.names = []
        self.captured = None

    def point(self, name):
        if not self.active:
            return
        idx = self.count
        self.count += 1
        self.names.append(name)
        if self.target is not None and idx == self.target:
            raise self.exc("injected fault at step %d (%s)" % (idx, name))


INJ = Injector()
_PATCHED = [False]


def install():
    """wrap the serialisation pipeline's public entry points (idempotent, harness-side)"""
    if _PATCHED[0]:
        return
    import cincoconfig as cc
    import cincoconfig.core as core_mod
    from cincoconfig import formats as F
    from cincoconfig.encryption import KeyFile

    def wrap(cls, name, label):
        orig = cls.__dict__[name]
        f = orig.__func__ if isinstance(orig, (classmethod, staticmethod)) else orig

        def wrapper(*a, **k):
            INJ.point(label)
            return f(*a, **k)
        wrapper.__name__ = name
        setattr(cls, name, classmethod(wrapper) if isinstance(orig, classmethod) else wrapper)

    seen = set()
    def all_field_classes(base):
        for sub in base.__subclasses__():
            if sub not in seen:
                seen.add(sub)
                yield sub
                yield from all_field_classes(sub)
    for cls in [cc.Field] + list(all_field_classes(cc.Field)):
        if "to_basic" in cls.__dict__:
            wrap(cls, "to_basic", "%s.to_basic" % cls.__name__)
    wrap(cc.Config, "dumps", "Config.dumps")
    wrap(cc.Config, "to_tree", "Config.to_tree")
    wrap(cc.ConfigFormat, "get", "ConfigFormat.get")
    wrap(KeyFile, "__enter__", "KeyFile.__enter__")
    wrap(KeyFile, "encrypt", "KeyFile.encrypt")
    for cls in (F.JsonConfigFormat, F.YamlConfigFormat, F.XmlConfigFormat, F.BsonConfigFormat, F.PickleConfigFormat):
        orig = cls.__dict__["dumps"]

        def dumps(self, config, tree, _orig=orig, _name=cls.__name__):
            INJ.point(_name + ".dumps")
            out = _orig(self, config, tree)
            if INJ.active:
                INJ.captured = out
            return out
        cls.dumps = dumps
    real_expand = os.path.expanduser

    class PathProxy:
        def __getattr__(self, n):
            return getattr(os.path, n)

        def expanduser(self, p):
            INJ.point("expanduser")
            return real_expand(p)

    class OsProxy:
        path = PathProxy()

        def __getattr__(self, n):
            return getattr(os, n)
    core_mod.os = OsProxy()
    _PATCHED[0] = True


EXC = {"ValueError": ValueError, "TypeError": TypeError, "OSError": OSError, "KeyError": KeyError, "RecursionError": RecursionError}


def exc_classes(tier):
    from cincoconfig.encryption import EncryptionError
    d = dict(EXC)
    d["EncryptionError"] = EncryptionError
    if tier == "quick":
        return {k: d[k] for k in ("ValueError", "OSError", "EncryptionError")}
    return d


def build(env=None):
    import cincoconfig as cc
    s = cc.Schema(dynamic=True, **({"env": env} if env else {}))
    s.s = cc.StringField(default="x")
    s.i = cc.IntField(default=1)
    s.f = cc.FloatField()
    s.b = cc.BytesField()
    s.ch = cc.ChallengeField("md5")
    s.sec = cc.SecureField(method="aes")
    s.l = cc.ListField(cc.IntField())
    s.d = cc.DictField(cc.StringField(), cc.IntField())
    s.ud = cc.DictField()
    s.any = cc.AnyField()
    s.sub.c = cc.StringField()
    s.sub.deep.e = cc.SecureField(method="xor")
    s.sub.deep.n = cc.IntField()
    item = cc.Schema()
    item.c = cc.IntField()
    item.s = cc.SecureField(method="xor")
    s.items = cc.ListField(item)
    s.dl = cc.DictField(cc.StringField(), cc.ListField(item))        # configurations inside a container inside a container
    ts = cc.Schema()
    ts.c = cc.StringField(default="t")
    s.t = cc.make_type(ts, "CT19")
    return s


STATES = {
    "default": {},
    "scalars": {"s": "hello", "i": 5, "f": 1.5},
    "bytes-digest": {"b": "YWJj", "ch": "pw"},
    "secrets": {"sec": "sixteen-byte-key", "sub": {"c": "n", "deep": {"e": "a deeper secret that is longer than the thirty-two byte key"}}},
    "containers": {"l": [1, 2], "d": {"k": 1}, "ud": {"a": [1]}, "any": {"x": [None]}},
    "items-1": {"items": [{"c": 1, "s": "i1"}]},
    "items-2": {"items": [{"c": 1, "s": "i1"}, {"c": 2}], "t": {"c": "tt"}},
    "nulls": {"s": None, "i": None, "sub": {"c": None}, "items": [{"c": None}], "t": {"c": None}, "l": None},
    "everything": {"s": "h", "i": 2, "f": 0.5, "b": "YQ==", "ch": "p", "sec": "s", "l": [3], "d": {"k": 2}, "any": [1], "sub": {"c": "c", "deep": {"e": "e"}},
                   "items": [{"c": 9, "s": "z"}], "t": {"c": "q"}},
    "dynamic": {"extra": {"k": [1, "two"]}},
    "empty-values": {"b": "", "s": "", "ud": {}, "any": []},        # an empty byte string, empty text, empty untyped containers
    "nested-items": {"dl": {"k": [{"c": 1, "s": "nested-secret-1"}, {"c": 2}], "j": []}, "items": [{"c": 3, "s": "i3"}]},
    "white-space": {"s": "  padded  ", "sub": {"c": "trailing newline\n"}, "any": [" x ", "   "], "ud": {"k": "\tv "}, "t": {"c": " t"}, "extra": " dyn "},
}
FORMATS = ["json", "yaml", "xml", "bson", "pickle"]
PRIORS = ["same-format", "other-format", "absent"]


def bounds(tier):
    return {"states": list(STATES) if tier == "thorough" else ["scalars", "secrets", "items-2", "everything", "bytes-digest", "containers", "nulls", "white-space", "nested-items", "empty-values"],
            "formats": FORMATS, "priors": PRIORS, "exception_classes": sorted(exc_classes(tier))}


def jobs(tier):
    b = bounds(tier)
    out = []
    for st in b["states"]:
        for fmt in FORMATS:
            out.append({"name": "inject/%s/%s" % (st, fmt), "kind": "inject", "state": st, "fmt": fmt, "tier": tier})
    out.append({"name": "natural", "kind": "natural", "tier": tier})
    for variant in VARIANTS:
        out.append({"name": "loadback/%s" % variant, "kind": "loadback", "variant": variant, "tier": tier})
    for fmt in (FORMATS if tier == "thorough" else ["json", "pickle"]):
        out.append({"name": "keyfile-history/%s" % fmt, "kind": "keyfile-history", "fmt": fmt, "tier": tier})
    return out


# a successful save loads back: key files of their own one and two levels down, and a process environment in which
# every variable the schema is bound to exists but is empty
VARIANTS = ["key-on-sub", "key-on-deep", "key-on-sub-and-deep", "env-empty", "env-empty+key-on-deep", "format-options", "after-masked-render", "key-home-relative", "with-include", "format-options+with-include", "bytes-keys"]
OPTIONS = {"json": {"pretty": False}, "yaml": {"root_key": "CFG"}, "xml": {"root_tag": "settings"}, "bson": {}, "pickle": {}}


def _loadback(job, ctx):
    import cincoconfig as cc
    variant = job["variant"]
    only = job.get("only")
    tmp = ctx.tmp
    keys = {}
    for name in ("root", "sub", "deep"):
        keys[name] = os.path.join(tmp, "c19-%s.key" % name)
        with open(keys[name], "wb") as fh:
            fh.write(bytes((i * 7 + len(name)) % 256 for i in range(32)))
    if variant == "key-home-relative":
        # the root's key file is named home-relative; the file exists (and must still hold the same key afterwards)
        import shutil
        shutil.copy(keys["root"], os.path.join(core.home_dir(), "c19-root.key"))
        keys["root"] = "~/c19-root.key"
    schema = build(env="C19ENV" if "env-empty" in variant else None)
    if "with-include" in variant:
        import cincoconfig as _cc
        schema.include = _cc.IncludeField(startdir=tmp)
    if variant == "bytes-keys":
        # typed dicts whose *keys* have an on-disk form of their own
        import cincoconfig as _cc
        schema.bk = _cc.DictField(_cc.BytesField(), _cc.IntField())
        schema.bkh = _cc.DictField(_cc.BytesField("hex"), _cc.StringField())
        schema.sub.lbk = _cc.ListField(_cc.DictField(_cc.BytesField(), _cc.BytesField()))
    if "env-empty" in variant:
        for name in W.env_names(schema):
            os.environ[name] = ""

    def assign(cfg, tree):
        # by attribute, level by level: nothing here goes through a tree load
        for k, v in tree.items():
            if isinstance(v, dict) and k in ("sub", "deep", "t"):
                assign(getattr(cfg, k), v)
            else:
                setattr(cfg, k, v)

    def setup():
        cfg = cc.Config(schema, key_filename=keys["root"])
        if "key-on-sub" in variant:
            cfg.sub._key_filename = keys["sub"]
        if "key-on-deep" in variant or "and-deep" in variant:
            cfg.sub.deep._key_filename = keys["deep"]
        return cfg
    try:
        for state in STATES:
            for fmt in FORMATS:
                for into in ("fresh", "same", "fresh-twice"):
                    ident = [state, fmt, into]
                    if only is not None and only != ident:
                        continue
                    if variant == "bytes-keys" and fmt == "xml":
                        continue        # encoded keys (base64 / hex text) are not XML names: outside that format's domain
                    cfg = setup()
                    tree = _copy(STATES[state])
                    if "b" in tree:
                        import base64
                        tree["b"] = base64.b64decode(tree["b"])
                    assign(cfg, tree)
                    if variant == "bytes-keys":
                        cfg.bk = {b"hello": 1, b"\xff\x00": 2}
                        cfg.bkh = {b"k": "v"}
                        cfg.sub.lbk = [{b"a": b"b"}, {}]
                    if "with-include" in variant:
                        # the configuration names an include file that restates one value two levels down of what is saved: the
                        # saved document carries the include, so loading it merges that file into what the document says
                        if cfg.sub.c is None:
                            cfg.sub.c = "inc"
                        cfg.sub.deep.n = 7
                        with open(os.path.join(tmp, "c19-part.inc"), "wb") as fh:
                            fh.write(cc.ConfigFormat.get(fmt, **(OPTIONS[fmt] if "format-options" in variant else {})).dumps(None, {"sub": {"c": cfg.sub.c, "deep": {"n": 7}}}))
                        cfg.include = "c19-part.inc"
                    dest = os.path.join(tmp, "lb.cfg")
                    ctx.transitions += 1
                    case = _case(job, ident)
                    fp = "C19|loadback|%s|%s|%s|" % (variant, fmt, into)
                    opts = OPTIONS[fmt] if "format-options" in variant else {}
                    try:
                        if variant == "after-masked-render":
                            # the same object was rendered for display first (masked, with virtual fields): none of that may stick
                            cfg.to_tree(virtual=True, sensitive_mask="*")
                            cfg.dumps(fmt, sensitive_mask="<hidden>", virtual=True)
                        cfg.save(dest, fmt, **opts)
                        if opts:
                            with open(dest, "rb") as fh:
                                written = fh.read()
                            if written != cfg.dumps(fmt, **opts) and fmt != "pickle" and "sec" not in STATES[state] and "items" not in STATES[state] and "ch" not in STATES[state]:
                                ctx.violation(fp + "written-differs-from-serialised", "state %s: save(..., %s) did not write what dumps(%s) produces" % (state, opts, opts), case)
                    except Exception as exc:  # noqa
                        ctx.violation(fp + "save-raises", "state %s: a plain save raised %r" % (state, exc), case)
                        continue
                    want = _norm(cc.asdict(cfg))
                    target = cfg if into == "same" else setup()
                    try:
                        for _ in range(2 if into == "fresh-twice" else 1):
                            if opts:      # Config.load takes no format options
                                with open(dest, "rb") as fh:
                                    target.loads(fh.read(), fmt, **opts)
                            else:
                                target.load(dest, fmt)
                        got = _norm(cc.asdict(target))
                    except Exception as exc:  # noqa
                        ctx.case(("loadback", variant, state, fmt, into), "loadback:raises", True)
                        ctx.violation(fp + "load-back-raises", "state %s: loading the saved file into %s raised %r" % (state, into, exc), case)
                        continue
                    ctx.case(("loadback", variant, state, fmt, into), "loadback:ok", True)
                    if V.plain(got) != V.plain(want):
                        ctx.violation(fp + "load-back-differs", "state %s: the saved file loads back into %s as %s, saved from %s" % (state, into, V.show(got, 160), V.show(want, 160)), case)
    finally:
        for name in list(os.environ):
            if name.startswith("C19ENV"):
                del os.environ[name]
    ctx.traces += 1
    ctx.sample({"loadback": variant, "states": list(STATES), "formats": FORMATS})


def _case(job, only):
    return {"jobparams_full": {k: v for k, v in job.items() if k not in ("single", "only")}, "only": only, "job": job["name"]}


def make_cfg(schema, state, tmp):
    import cincoconfig as cc
    key = os.path.join(tmp, "c19.key")
    if not os.path.exists(key):
        open(key, "wb").write(bytes(range(32)))
    cfg = cc.Config(schema, key_filename=key)
    cfg.load_tree(_copy(STATES[state]))
    return cfg


def _copy(t):
    import copy
    return copy.deepcopy(t)


def file_id(path):
    if not os.path.lexists(path):
        return None
    st = os.stat(path)
    with open(path, "rb") as fh:
        return (fh.read(), st.st_ino, st.st_mtime_ns, st.st_size)


def prefill(tmp, prior, fmt, schema):
    dest = os.path.join(tmp, "dest.cfg")
    if os.path.exists(dest):
        os.unlink(dest)
    if prior == "absent":
        return dest
    other = make_cfg(schema, "scalars", tmp)
    pf = fmt if prior == "same-format" else ("json" if fmt != "json" else "yaml")
    with open(dest, "wb") as fh:
        fh.write(other.dumps(pf))
    return dest


def run_job(job, ctx):
    install()
    single = job.get("single")
    if single:
        job = dict(single["jobparams_full"]); job["only"] = single["only"]
    if job["kind"] == "loadback":
        _loadback(job, ctx)
    elif job["kind"] == "inject":
        _inject(job, ctx)
    elif job["kind"] == "keyfile-history":
        _keyfile_history(job, ctx)
    elif job.get("only") and job["only"][0] == "history":
        _histories(job, ctx, build())
    else:
        _natural(job, ctx)


def attempt_save(cfg, dest, fmt, target=None, exc=None, **kw):
    INJ.active, INJ.count, INJ.target, INJ.exc, INJ.names, INJ.captured = True, 0, target, exc, [], None
    try:
        with core.audit_opens() as log:
            try:
                cfg.save(dest, fmt, **kw)
                raised = None
            except BaseException as e:  # noqa
                raised = e
    finally:
        INJ.active = False
    return raised, list(log), list(INJ.names), INJ.captured


def judge_failure(ctx, bad, dest, before, raised, log):
    after = file_id(dest)
    if after != before:
        what = "created" if before is None else ("removed" if after is None else ("truncated" if after[3] < before[3] and not after[0] else "modified"))
        bad("destination-" + what, "the save failed (%r) but the destination was %s" % (raised, what))
    elif any(p == os.path.abspath(dest) and m == "w" for p, m in log):
        bad("destination-opened-for-writing", "the save failed (%r) after opening the destination for writing" % (raised,))


def _inject(job, ctx):
    import cincoconfig as cc
    tmp = ctx.tmp
    state, fmt, tier = job["state"], job["fmt"], job["tier"]
    schema = build()
    only = job.get("only")
    classes = exc_classes(tier)
    for prior in PRIORS:
        # fault-free run: numbers the steps and is itself checked (bytes written == bytes serialised; loads back equal)
        cfg = make_cfg(schema, state, tmp)
        dest = prefill(tmp, prior, fmt, schema)
        raised, log, names, captured = attempt_save(cfg, dest, fmt)
        fpb = "C19|%s|%s|%s|" % (state, fmt, prior)

        def bad(what, msg, key=None):
            ctx.violation(fpb + what, "state %s, format %s, destination %s: %s" % (state, fmt, prior, msg), _case(job, key))
        if only is None or only[0] == prior and only[1] is None:
            ctx.case((state, fmt, prior, "baseline"), "baseline:%s" % ("ok" if raised is None else "raises"), False)
            ctx.transitions += 1
            if raised is not None:
                bad("baseline-raises", "a plain save raised %r" % (raised,), [prior, None, None])
                continue
            written = file_id(dest)
            if written is None or written[0] != captured:
                bad("written-differs-from-serialised", "the destination holds %d bytes, the formatter returned %d" % (len(written[0]) if written else -1, len(captured or b"")), [prior, None, None])
            fresh = cc.Config(schema, key_filename=os.path.join(tmp, "c19.key"))
            try:
                fresh.load(dest, fmt)
                a, b = _norm(cc.asdict(cfg)), _norm(cc.asdict(fresh))
                if V.plain(a) != V.plain(b):
                    bad("load-back-differs", "the saved file loads back as %s, saved from %s" % (V.show(b, 200), V.show(a, 200)), [prior, None, None])
            except Exception as exc:  # noqa
                bad("load-back-raises", "loading the saved file raised %r" % (exc,), [prior, None, None])
        if raised is not None:
            continue
        nsteps = len(names)
        ctx.states += nsteps
        for k in range(nsteps):
            for ename, ecls in classes.items():
                if only is not None and only != [prior, k, ename]:
                    continue
                cfg = make_cfg(schema, state, tmp)
                dest = prefill(tmp, prior, fmt, schema)
                before = file_id(dest)
                raised, log, names2, _ = attempt_save(cfg, dest, fmt, target=k, exc=ecls)
                ctx.transitions += 1
                ctx.case((state, fmt, prior, k, ename), "inject:%s:%s" % (names[k].split(".")[-1], "raised" if raised else "returned"), True)

                def badk(what, msg, k=k, ename=ename):
                    bad(what + "|" + names[k], "fault %s at step %d (%s): %s" % (ename, k, names[k], msg), [prior, k, ename])
                if raised is None:
                    badk("fault-swallowed", "the save returned normally although serialisation failed")
                    # a swallowed fault must at least not have damaged the file
                    after = file_id(dest)
                    if before is not None and (after is None or after[0] != before[0]) and (after is None or after[0] != _safe_dumps(cfg, fmt)):
                        badk("destination-damaged", "and the destination no longer holds a loadable document")
                    continue
                judge_failure(ctx, badk, dest, before, raised, log)
                # the retry: the same object saved again without the fault is an ordinary successful save
                raised2, _log2, _n2, captured2 = attempt_save(cfg, dest, fmt)
                ctx.transitions += 1
                if raised2 is not None:
                    badk("retry-raises", "the save after the failed one raised %r" % (raised2,))
                    continue
                written = file_id(dest)
                if written is None or written[0] != captured2:
                    badk("retry-written-differs-from-serialised", "after the retry the destination holds %d bytes, the formatter returned %d" % (len(written[0]) if written else -1, len(captured2 or b"")))
                fresh = cc.Config(schema, key_filename=os.path.join(tmp, "c19.key"))
                try:
                    fresh.load(dest, fmt)
                    a, b = _norm(cc.asdict(cfg)), _norm(cc.asdict(fresh))
                    if V.plain(a) != V.plain(b):
                        badk("retry-load-back-differs", "the file written by the retry loads back as %s, saved from %s" % (V.show(b, 200), V.show(a, 200)))
                except Exception as exc:  # noqa
                    badk("retry-load-back-raises", "loading the file written by the retry raised %r" % (exc,))
    ctx.traces += 1
    ctx.sample({"state": state, "format": fmt, "steps": names[:40] if 'names' in dir() else []})


def _norm(d):
    """an unset typed list/dict may come back empty; an empty secret comes back unset"""
    out = {}
    for k, v in d.items():
        if isinstance(v, dict) and k in ("sub", "deep", "t"):
            out[k] = _norm(v)
        elif k in ("l", "d", "items", "dl") and (v is None or len(v) == 0):
            out[k] = "<unset-or-empty>"
        elif k == "items":
            out[k] = [_norm(x) for x in v]
        elif k in ("sec", "e", "s") and v == "":
            out[k] = None
        else:
            out[k] = v
    return out


def _loose(x):
    """comparison form for values outside a format's domain: map keys as text, tuples as lists, unset == empty"""
    if x is None or (isinstance(x, (list, tuple, dict, str, bytes)) and len(x) == 0):
        return None
    if isinstance(x, dict):
        return {(k.decode("latin-1") if isinstance(k, bytes) else str(k)): _loose(v) for k, v in x.items()}
    if isinstance(x, (list, tuple)):
        return [_loose(v) for v in x]
    if isinstance(x, (set, frozenset)):
        return sorted(_loose(v) for v in x)
    if isinstance(x, float) and x != x:
        return "nan"
    return x


def _plainish(d):
    """asdict made only of plain data with string keys, i.e. inside every format's domain (equality after a reload is only demanded there)"""
    from mc.ref.fields import is_plain_data
    return is_plain_data(d)


def _histories(job, ctx, schema):
    """every sequence (<= 4 steps) over {A saves, B saves, the file is deleted, A changes} on one destination:
    after each save the destination holds exactly what that call serialised"""
    import itertools
    import cincoconfig as cc
    tmp = ctx.tmp
    only = job.get("only")
    steps = ["save-a", "save-b", "delete", "change-a", "save-a-other-format"]
    for fmt in FORMATS:
        for n in (2, 3, 4):
            # "grow-a": the (dynamic) configuration A gains a new key between saves; in sequences of up to 3 steps
            for seq in itertools.product(steps + (["grow-a"] if n < 4 else []), repeat=n):
                if "save-a" not in seq and "save-a-other-format" not in seq:
                    continue
                if only is not None and only != ["history", fmt, list(seq)]:
                    continue
                a = make_cfg(schema, "scalars", tmp)
                b = make_cfg(schema, "containers", tmp)
                dest = os.path.join(tmp, "hist.cfg")
                if os.path.exists(dest):
                    os.unlink(dest)
                ok = True
                for i, st in enumerate(seq):
                    if st == "delete":
                        if os.path.exists(dest):
                            os.unlink(dest)
                        continue
                    if st == "change-a":
                        a.i = (a.i or 0) + 1
                        continue
                    if st == "grow-a":
                        setattr(a, "grown%d" % i, [i, "v"])
                        continue
                    who = b if st == "save-b" else a
                    f = fmt if st != "save-a-other-format" else ("json" if fmt != "json" else "yaml")
                    raised, log, names, captured = attempt_save(who, dest, f)
                    ctx.transitions += 1
                    got = file_id(dest)
                    if raised is None and "grow-a" in seq and f == fmt:
                        # a successful save loads back into an equal configuration (every key the object has now)
                        fresh = cc.Config(schema, key_filename=os.path.join(tmp, "c19.key"))
                        try:
                            fresh.load(dest, f)
                            if V.plain(_norm(cc.asdict(fresh))) != V.plain(_norm(cc.asdict(who))):
                                ok = False
                                ctx.violation("C19|history|%s|load-back-differs" % fmt, "sequence %s: after step %d (%s) the saved file loads back as %s, saved from %s"
                                              % (list(seq), i, st, V.show(cc.asdict(fresh), 120), V.show(cc.asdict(who), 120)), _case(job, ["history", fmt, list(seq)]), size=n)
                                break
                        except Exception as exc:  # noqa
                            ok = False
                            ctx.violation("C19|history|%s|load-back-raises" % fmt, "sequence %s: loading the file saved at step %d raised %r" % (list(seq), i, exc),
                                          _case(job, ["history", fmt, list(seq)]), size=n)
                            break
                    if raised is not None or got is None or got[0] != captured:
                        ok = False
                        ctx.violation("C19|history|%s|%s" % (fmt, "raised" if raised else "stale-or-missing-file"),
                                      "sequence %s on one destination: after step %d (%s) the file %s" % (list(seq), i, st,
                                      "save raised %r" % (raised,) if raised else "does not hold the bytes serialised by that call"),
                                      _case(job, ["history", fmt, list(seq)]), size=n)
                        break
                ctx.case(("history", fmt, seq), "history:%d:%s" % (n, "ok" if ok else "bad"), True)
    ctx.traces += 1


def _safe_dumps(cfg, fmt):
    try:
        return cfg.dumps(fmt)
    except Exception:  # noqa
        return None


def _keyfile_history(job, ctx):
    """every sequence (<= 6 steps, 7 in the thorough tier, ending in a save) over {save, the key file is truncated, the key file is restored, the
    key file is replaced by another valid key} on one configuration object holding secrets and one destination:
    a save under an unusable key file fails and leaves the destination alone; every other save returns, writes what was
    serialised, and the file loads back equal in a fresh configuration that reads the key file as it is at that moment"""
    import itertools
    import cincoconfig as cc
    tmp = ctx.tmp
    only = job.get("only")
    fmt = job["fmt"]
    schema = build()
    K1, K2 = bytes(range(32)), bytes(range(100, 132))
    key = os.path.join(tmp, "kh.key")
    steps = ["save", "break", "restore", "rotate"]
    for n in range(1, (7 if job.get("tier") == "thorough" else 6) + 1):
        for seq in itertools.product(steps, repeat=n):
            if seq[-1] != "save":
                continue
            if only is not None and only != ["keyfile-history", list(seq)]:
                continue
            with open(key, "wb") as fh:
                fh.write(K1)
            cfg = cc.Config(schema, key_filename=key)
            cfg.load_tree(_copy(STATES["secrets"]))
            cfg.items = [{"c": 1, "s": "item-secret"}]
            dest = os.path.join(tmp, "kh.cfg")
            if os.path.exists(dest):
                os.unlink(dest)
            usable, ok = True, True
            case = _case(job, ["keyfile-history", list(seq)])

            def bad(what, msg):
                ctx.violation("C19|keyfile-history|%s|%s" % (fmt, what), "sequence %s: %s" % (list(seq), msg), case, size=n)
            for i, st in enumerate(seq):
                if st != "save":
                    with open(key, "wb") as fh:
                        fh.write(K1[:7] if st == "break" else (K1 if st == "restore" else K2))
                    usable = st != "break"
                    continue
                before = file_id(dest)
                raised, log, names, captured = attempt_save(cfg, dest, fmt)
                ctx.transitions += 1
                if not usable:
                    if raised is None:
                        ok = False; bad("saved-with-unusable-key", "step %d: the save returned although the key file holds 7 bytes" % i)
                    else:
                        judge_failure(ctx, lambda w, m: bad(w, "step %d: %s" % (i, m)), dest, before, raised, log)
                    continue
                if raised is not None:
                    ok = False; bad("raised", "step %d: the save raised %r although the key file is valid" % (i, raised)); break
                got = file_id(dest)
                if got is None or got[0] != captured:
                    ok = False; bad("written-differs-from-serialised", "step %d: the destination does not hold the bytes serialised by that call" % i); break
                fresh = cc.Config(schema, key_filename=key)
                try:
                    fresh.load(dest, fmt)
                    if V.plain(_norm(cc.asdict(fresh))) != V.plain(_norm(cc.asdict(cfg))):
                        ok = False; bad("load-back-differs", "step %d: the saved file loads back as %s, saved from %s" % (i, V.show(cc.asdict(fresh), 160), V.show(cc.asdict(cfg), 160))); break
                except Exception as exc:  # noqa
                    ok = False; bad("load-back-raises", "step %d: loading the saved file under the current key file raised %r" % (i, exc)); break
            ctx.case(("keyfile-history", fmt, seq), "keyfile-history:%d:%s" % (n, "ok" if ok else "bad"), n > 1)
            ctx.states += 1
    ctx.traces += 1


NATURAL = [
    # (id, assignments via attribute, format, keyfile variant)
    ("set-in-any", {"any": {"$": "set", "v": [1, 2]}}, None, "ok"),
    ("object-in-any", {"any": {"$": "obj"}}, None, "ok"),
    ("object-in-untyped-list", {"any": [1, {"$": "obj"}]}, None, "ok"),
    ("bytes-in-any", {"any": {"$": "y", "v": "ff00"}}, None, "ok"),
    ("huge-int", {"i": 2 ** 70}, None, "ok"),
    ("bad-xml-key", {"ud": {"$": "d", "v": [["a b", 1]]}}, None, "ok"),
    ("nonstring-dict-key", {"ud": {"$": "d", "v": [[5, 1]]}}, None, "ok"),
    ("tuple-dict-key", {"ud": {"$": "d", "v": [[{"$": "t", "v": ["a", "b"]}, 1], ["plain", 2]]}}, None, "ok"),
    ("bytes-dict-key", {"ud": {"$": "d", "v": [[{"$": "y", "v": "6162"}, 1]]}}, None, "ok"),
    ("tuple-key-in-any", {"any": {"$": "d", "v": [["k", {"$": "d", "v": [[{"$": "t", "v": [1, 2]}, "v"]]}]]}}, None, "ok"),
    ("tuple-key-in-list", {"any": [{"$": "d", "v": [[{"$": "t", "v": [1]}, "v"], ["s", 1]]}]}, None, "ok"),
    ("lone-surrogate", {"s": "\ud800"}, None, "ok"),
    ("surrogate-in-secret", {"sec": "pa\udcffss"}, None, "ok"),
    ("surrogate-in-xor-secret", {"sub.deep.e": "pa\udcffss"}, None, "ok"),
    ("surrogate-in-item-secret", {"items": [{"c": 1, "s": "z\udce9"}]}, None, "ok"),
    ("control-char", {"s": "a\x00b"}, None, "ok"),
    ("nan", {"f": {"$": "f", "v": "nan"}}, None, "ok"),
    ("secret-malformed-keyfile", {"sec": "top"}, None, "short"),
    ("secret-keyfile-is-directory", {"sec": "top"}, None, "dir"),
    ("secret-keyfile-unwritable-dir", {"sec": "top"}, None, "nodir"),
    ("nested-secret-malformed-keyfile", {"sub.deep.e": "deep"}, None, "short"),
    ("item-secret-malformed-keyfile", {"items": [{"c": 1, "s": "zz"}]}, None, "short"),
    ("unknown-format", {"s": "v"}, "toml", "ok"),
    ("unknown-format-empty", {"s": "v"}, "", "ok"),
    ("format-none", {"s": "v"}, None, "fmt-none"),
    ("bad-format-option", {"s": "v"}, "json+badopt", "ok"),
]


def _natural(job, ctx):
    import cincoconfig as cc
    tmp = ctx.tmp
    only = job.get("only")
    schema = build()
    for nid, assigns, forced_fmt, keyvar in NATURAL:
        fmts = FORMATS if forced_fmt is None and keyvar != "fmt-none" else [forced_fmt]
        for fmt in fmts:
            for prior in PRIORS:
                if only is not None and only != [nid, fmt, prior]:
                    continue
                keydir = os.path.join(tmp, "kd-%s" % keyvar)
                import shutil
                shutil.rmtree(keydir, ignore_errors=True)
                os.makedirs(keydir)
                key = os.path.join(keydir, "k.key")
                if keyvar == "short":
                    open(key, "wb").write(b"0123456789")
                elif keyvar == "dir":
                    os.makedirs(key)
                elif keyvar == "nodir":
                    key = os.path.join(keydir, "missing", "k.key")
                else:
                    open(key, "wb").write(bytes(range(32)))
                cfg = cc.Config(schema, key_filename=key)
                try:
                    for path, v in assigns.items():
                        cfg[path] = V.dec(v)
                except Exception:  # noqa
                    ctx.skipped += 1
                    continue
                dest = prefill(tmp, prior, fmt if fmt in FORMATS else "json", schema)
                before = file_id(dest)
                kw = {}
                usefmt = fmt
                if fmt == "json+badopt":
                    usefmt, kw = "json", {"nosuchoption": 1}
                raised, log, names, captured = attempt_save(cfg, dest, usefmt, **kw)
                ctx.transitions += 1
                ctx.case((nid, fmt, prior), "natural:%s:%s" % (nid, "raised" if raised else "saved"), True)
                fp = "C19|natural|%s|%s|%s|" % (nid, fmt, prior)

                def bad(what, msg):
                    ctx.violation(fp + what, "%s, format %s, destination %s: %s" % (nid, fmt, prior, msg), _case(job, [nid, fmt, prior]))
                if raised is not None:
                    judge_failure(ctx, bad, dest, before, raised, log)
                    # a plain retry on the same configuration object must fail the same way (nothing the first attempt
                    # left behind may let the second one through)
                    raised2, log2, _, captured2 = attempt_save(cfg, dest, usefmt, **kw)
                    ctx.transitions += 1
                    if raised2 is not None:
                        judge_failure(ctx, lambda w, m: bad("retry-" + w, m), dest, before, raised2, log2)
                    else:
                        fresh = cc.Config(schema, key_filename=key)
                        try:
                            fresh.load(dest, usefmt)
                            if V.plain(_loose(cc.asdict(fresh))) != V.plain(_loose(cc.asdict(cfg))):
                                bad("retry-saved-differently", "the first save failed (%r), the retry returned, and the file loads back differently" % (raised,))
                        except Exception as exc:  # noqa
                            bad("retry-saved-unloadable", "the first save failed (%r); the retry returned normally but wrote a file that cannot be loaded: %r" % (raised, exc))
                else:
                    written = file_id(dest)
                    if written is None or written[0] != captured:
                        bad("written-differs-from-serialised", "the destination does not hold the bytes the formatter returned")
                    # a save that returned must have produced a file that loads back into an equal configuration
                    fresh = cc.Config(schema, key_filename=key)
                    try:
                        fresh.load(dest, usefmt)
                        if V.plain(_norm(cc.asdict(fresh))) != V.plain(_norm(cc.asdict(cfg))) and _plainish(cc.asdict(cfg)):
                            bad("load-back-differs", "the save returned but the file loads back differently")
                        elif V.plain(_loose(cc.asdict(fresh))) != V.plain(_loose(cc.asdict(cfg))):
                            # outside the format's domain a key may be coerced to text, but nothing may silently disappear
                            bad("entries-lost", "the save returned but entries are missing or changed after loading the file back: %s -> %s"
                                % (V.show(cc.asdict(cfg), 120), V.show(cc.asdict(fresh), 120)))
                    except Exception as exc:  # noqa
                        bad("saved-file-does-not-load", "the save returned normally but the file it wrote cannot be loaded: %r" % (exc,))
    _histories(job, ctx, schema)
    ctx.states += len(NATURAL)
    ctx.traces += 1
    ctx.sample({"natural_faults": [n[0] for n in NATURAL]})
