"""
C03 - secrets are stored only encrypted and decrypt with the configuration's key file.

One schema places a secret at the root, at depth 1 and 2, in a config type, in a typed list and inside the
items of a list of configurations (incl. a sub-schema inside the item).  Enumerated exhaustively: every
placement of own key files over {root, sub, deep, config type} (16) x method x plaintext x format x every
operation history up to the depth bound over {assign by attribute / tree / map-to-sub-configuration, round
trip into the same and into a fresh configuration, save+load through files, append items, re-assign the
root's or the sub-configuration's key file after use, move the used sub-configuration under another root}.
After every step the document is rendered and (a) scanned for the plaintext, (b) every ciphertext is
decrypted with the *reference* cipher under the key the reference resolution designates and under no
other key file of the world, (c) loaded into a fresh configuration, (d) the files opened during the calls
are compared (audit hook) with the designated key files.
"""
import base64
import itertools
import json
import os

from mc import core
from mc import values as V
from mc.ref import aes as RA

PROP = "C03"
LEVEL = "model_checking"
RULE = ("full product key-file placement x method x plaintext x format x operation history (all sequences up to the depth "
        "bound); non-trivial = at least one key file is named or the history has a step beyond the first assignment; "
        "distinct = distinct (placement, method, plaintext, format, history)")
ASSUMPTIONS = ["mc/ref/aes.py and a hand-written XOR are the reference ciphers", "empty secrets are out of scope (they come back unset)",
               "file accesses are observed through CPython's 'open' audit event"]

PLAINTEXTS = {"ascii7": "s3cr3t!", "nonascii": "päss-wörd-ÜÑ", "long40": "0123456789abcdefghijABCDEFGHIJ!@#$%^&*()_+-=[]{}",       # 48 bytes: longer than the key, and a whole number of cipher blocks
              "padded": "  päss wörd with edges\t\n"}        # white space at either end is part of the secret
NODES = ["root", "sub", "deep", "ct"]
KEYS = {name: bytes((i * 31 + j * 7 + 11) % 256 for j in range(32)) for i, name in enumerate(["default", "root", "sub", "deep", "ct", "root2", "sub2"])}


def keypath(tmp, name):
    """the name a configuration is given for key file `name` (the sub-configuration's one is home-relative)"""
    if name == "default":
        return core.default_keyfile()
    if name == "sub":
        core.home_dir()
        return "~/c03-keys/sub.key"
    return os.path.join(tmp, "keys", name + ".key")


def realpath(tmp, name):
    return os.path.abspath(os.path.expanduser(keypath(tmp, name)))


def write_keys(tmp):
    os.makedirs(os.path.join(tmp, "keys"), exist_ok=True)
    for name, key in KEYS.items():
        os.makedirs(os.path.dirname(realpath(tmp, name)), exist_ok=True)
        with open(realpath(tmp, name), "wb") as fh:
            fh.write(key)


CTMODE = ["class"]      # how the config type gets its key file: named by make_type ("class") or assigned to the instance cfg.t ("instance")


def build(method, placement, tmp):
    import cincoconfig as cc
    s = cc.Schema()
    s.s = cc.SecureField(method=method)
    s.plain = cc.StringField(default="visible")
    s.sub.s = cc.SecureField(method=method)
    s.sub.deep.s = cc.SecureField(method=method)
    ts = cc.Schema()
    ts.s = cc.SecureField(method=method)
    # an earlier type made from the same schema under the same name, with another key file, is discarded
    cc.make_type(ts, "CT3", key_filename=keypath(tmp, "sub2"))
    CT = cc.make_type(ts, "CT3", key_filename=keypath(tmp, "ct") if "ct" in placement and CTMODE[0] == "class" else None)
    s.t = CT
    s.ls = cc.ListField(cc.SecureField(method=method))
    item = cc.Schema()
    item.s = cc.SecureField(method=method)
    item.inner.s = cc.SecureField(method=method)
    s.items = cc.ListField(item)
    s.ts = cc.ListField(CT)
    return s


def new_config(schema, placement, tmp, rootkey="root"):
    import cincoconfig as cc
    cfg = cc.Config(schema, key_filename=keypath(tmp, rootkey)) if "root" in placement else schema()
    apply_placement(cfg, placement, tmp)
    return cfg


def apply_placement(cfg, placement, tmp):
    if "sub" in placement:
        cfg.sub._key_filename = keypath(tmp, "sub")
    if "deep" in placement:
        cfg.sub.deep._key_filename = keypath(tmp, "deep")
    if "ct" in placement and CTMODE[0] == "instance":
        cfg.t._key_filename = keypath(tmp, "ct")


class Model:
    """which key name each node's secrets must be encrypted under, and the plaintext each position holds"""

    def __init__(self, placement):
        self.own = {"root": "root" if "root" in placement else None, "sub": "sub" if "sub" in placement else None,
                    "deep": "deep" if "deep" in placement else None, "ct": "ct" if "ct" in placement else None}
        self.secrets = {}     # position -> plaintext

    def key_for(self, pos):
        root = self.own["root"] or "default"
        if pos in ("s",) or pos.startswith("ls[") or pos.startswith("items["):
            return root
        if pos == "sub.s":
            return self.own["sub"] or root
        if pos == "sub.deep.s":
            return self.own["deep"] or self.own["sub"] or root
        if pos == "t.s":
            return self.own["ct"] or root
        if pos.startswith("ts["):        # items of the type: the type's own key file, which an instance-level assignment on cfg.t is not
            return (self.own["ct"] if CTMODE[0] == "class" else None) or root
        raise ValueError(pos)


OPS = ["assign-attr", "assign-tree", "assign-subdict", "same", "fresh", "files", "append", "rekey-root", "rekey-sub", "move-sub", "adopt-item", "adopt-extend", "attach-used", "rotate-root-file", "failed-sub-load"]


def histories(depth):
    out = []
    firsts = ["assign-attr", "assign-tree"]
    rest = [o for o in OPS if o not in ("assign-tree",)]
    for f in firsts:
        out.append([f])
        if depth >= 2:
            for a in rest:
                out.append([f, a])
                if depth >= 3:
                    for b in rest:
                        out.append([f, a, b])
    # secrets at one position only (list items of the config type / the sub-configuration): every other key file of
    # the tree, the root's and the default one included, is then designated by nothing
    for first in ("only-ts", "only-sub"):
        out.append([first])
        for a in ("same", "fresh", "files", "append-ts"):
            out.append([first, a])
    # the sub-configuration names, explicitly, the key file it would inherit anyway; then the root changes its own
    out.append(["assign-attr", "pin-sub", "rekey-root"])
    out.append(["assign-tree", "pin-sub", "rekey-root"])
    if depth < 3:
        # load-then-change-key histories are the shortest ones that involve a value that was *loaded* (not assigned)
        # before a key file changes; they are always included
        for load in ("same", "fresh", "files"):
            for change in ("rekey-root", "rekey-sub", "move-sub", "append"):
                out.append(["assign-attr", load, change])
            out.append(["assign-tree", load, "rekey-root"])
    return out


def bounds(tier):
    return {"placements": 16, "methods": ["aes", "xor", "best"],
            "plaintexts": list(PLAINTEXTS) if tier == "thorough" else ["long40", "padded"],
            "formats": ["json", "yaml", "xml", "bson", "pickle"] if tier == "thorough" else ["json", "xml"],
            "history_depth": 3 if tier == "thorough" else 2, "histories": len(histories(3 if tier == "thorough" else 2))}


def jobs(tier):
    b = bounds(tier)
    out = []
    for r in range(len(NODES) + 1):
        for placement in itertools.combinations(NODES, r):
            for method in b["methods"]:
                for fmt in b["formats"]:
                    out.append({"name": "%s/%s/%s" % ("+".join(placement) or "none", method, fmt), "placement": list(placement), "method": method,
                                "ctmode": "class" if fmt in ("json", "yaml", "bson") else "instance",
                                "fmt": fmt, "plaintexts": b["plaintexts"], "depth": b["history_depth"],
                                "new_process": tier == "thorough" or (method == "aes" and fmt == "json")})
    for method in b["methods"]:
        out.append({"name": "unassigned/%s" % method, "kind": "unassigned", "method": method, "plaintexts": b["plaintexts"], "formats": b["formats"]})
        out.append({"name": "empty-lists/%s" % method, "kind": "empty-lists", "method": method})
        out.append({"name": "late-key-directory/%s" % method, "kind": "late-keydir", "method": method})
        out.append({"name": "dict-and-late/%s" % method, "kind": "dict-and-late", "method": method})
    return out


SESSION_SCRIPT = r"""
import json, os, sys
sys.path.insert(0, %(repo)r)
sys.path.insert(0, %(verif)r)
os.environ["HOME"] = os.environ["VERIF_FIXED_HOME"] = %(home)r
import cincoconfig
cincoconfig.Config.DEFAULT_CINCOKEY_FILEPATH = os.path.join(%(home)r, ".cincokey")
from mc.props import c03
c03.CTMODE[0] = %(ctmode)r
schema = c03.build(%(method)r, %(placement)r, %(tmp)r)
cfg = c03.new_config(schema, %(placement)r, %(tmp)r)
cfg.load(%(path)r, %(fmt)r)
print(json.dumps(c03.read_secrets(cfg)))
"""


def new_process_session(ctx, job, pname):
    """a genuinely new session: another interpreter builds a new configuration object and loads the saved file"""
    import subprocess
    import sys as _sys
    tmp = ctx.tmp
    write_keys(tmp)
    placement, method, fmt = job["placement"], job["method"], job["fmt"]
    p = PLAINTEXTS[pname]
    cfg = new_config(build(method, placement, tmp), placement, tmp)
    cfg.load_tree({"s": p, "sub": {"s": p, "deep": {"s": p}}, "t": {"s": p}, "ls": [p], "items": [{"s": p, "inner": {"s": p}}], "ts": [{"s": p}]})
    path = os.path.join(tmp, "session." + fmt)
    cfg.save(path, fmt)
    want = read_secrets(cfg)
    script = SESSION_SCRIPT % {"repo": core.REPO, "verif": core.VERIF, "home": core.home_dir(), "method": method, "placement": placement, "tmp": tmp, "path": path, "fmt": fmt, "ctmode": CTMODE[0]}
    env = dict(os.environ, PYTHONHASHSEED="0")
    r = subprocess.run([_sys.executable, "-B", "-c", script], capture_output=True, text=True, env=env, timeout=120)
    ctx.transitions += 1
    ctx.case((tuple(placement), method, fmt, pname, "new-process"), "new-process:%s" % ("ok" if r.returncode == 0 else "fails"), True)
    case = _case(job, [pname, ["new-process"]])
    fpb = "C03|%s|%s|%s|" % ("+".join(placement) or "none", method, fmt)
    if r.returncode != 0:
        ctx.violation(fpb + "new-process-load-fails", "a new interpreter session fails to load the saved file: %s" % r.stderr.strip().splitlines()[-1:], case)
        return
    got = json.loads(r.stdout.strip().splitlines()[-1])
    if got != want:
        ctx.violation(fpb + "new-process-differs", "a new interpreter session reads %s, saved from %s" % (got, want), case)


def _unassigned(job, ctx):
    """secrets that were never assigned or loaded: a constant default, a callable default, a value supplied by the field's
    environment variable - at the root, in a sub-configuration, in a config type and in a list item created from an
    empty map.  The rendered output carries method + ciphertext under the configuration's key file, never the plaintext."""
    import cincoconfig as cc
    tmp = ctx.tmp
    write_keys(tmp)
    method, only = job["method"], job.get("only")
    for pname in job["plaintexts"]:
        P = PLAINTEXTS[pname]
        for source in ("default", "callable", "env"):
            for keymode in ("root", "default"):
                for fmt in job["formats"]:
                    ident = [pname, source, keymode, fmt]
                    if only is not None and only != ident:
                        continue
                    dflt = {"default": P, "callable": (lambda P=P: P), "env": None}[source]
                    envs = {"C03U_S": P, "C03U_SUB_S": P} if source == "env" else {}
                    os.environ.update(envs)
                    try:
                        s = cc.Schema(env="C03U" if source == "env" else False)
                        s.s = cc.SecureField(method=method, default=dflt)
                        s.plain = cc.StringField(default="visible")
                        s.sub.s = cc.SecureField(method=method, default=dflt)
                        ts = cc.Schema()
                        ts.s = cc.SecureField(method=method, default=dflt if source != "env" else P)     # a config type's schema is not under the prefix
                        s.t = cc.make_type(ts, "CT3U")
                        item = cc.Schema()
                        item.s = cc.SecureField(method=method, default=dflt if source != "env" else P)
                        s.items = cc.ListField(item)

                        def mk():
                            c = cc.Config(s, key_filename=keypath(tmp, "root")) if keymode == "root" else s()
                            c.items = [{}]
                            return c
                        fpb = "C03|unassigned|%s|%s|%s|" % (source, method, keymode)
                        case = _case(job, ident)
                        ctx.transitions += 1
                        try:
                            cfg = mk()
                            tree = cfg.to_tree()
                            data = cfg.dumps(fmt)
                        except Exception as exc:  # noqa
                            ctx.violation(fpb + "raises", "rendering a configuration whose secrets come from %s raised %r" % (source, exc), case)
                            continue
                        ctx.case(("unassigned", pname, source, keymode, fmt, method), "unassigned:%s" % source, True)
                        raw = P.encode()
                        for needle in (raw, base64.b64encode(raw), raw.hex().encode(), json.dumps(P).encode()[1:-1]):
                            if needle in data:
                                ctx.violation(fpb + "plaintext-in-output", "the %s document contains the plaintext of a secret that came from %s" % (fmt, source), case)
                                break
                        key = KEYS["root" if keymode == "root" else "default"]
                        for pos, sv in collect_secrets(tree):
                            if not isinstance(sv, dict) or sv.get("method") not in ("aes", "xor") or not isinstance(sv.get("ciphertext"), str):
                                ctx.violation(fpb + "stored-shape|" + _poskind(pos), "%s (from %s) is rendered as %s" % (pos, source, V.show(sv, 60)), case)
                            elif _try(sv["method"], key, base64.b64decode(sv["ciphertext"])) != raw:
                                ctx.violation(fpb + "wrong-key|" + _poskind(pos), "%s (from %s) does not decrypt under the configuration's key file" % (pos, source), case)
                        if len(collect_secrets(tree)) != 4:
                            ctx.violation(fpb + "positions", "expected 4 secret positions in the tree, found %s" % [p for p, _ in collect_secrets(tree)], case)
                    finally:
                        for k in envs:
                            os.environ.pop(k, None)
                    try:
                        fresh = mk()
                        fresh.loads(data, fmt)
                        got = [fresh.s, fresh.sub.s, fresh.t.s, fresh.items[0].s]
                        if got != [P] * 4:
                            ctx.violation(fpb + "reload-differs", "after reload the secrets read %r" % (got,), case)
                    except Exception as exc:  # noqa
                        ctx.violation(fpb + "reload-raises", "loading the document back raised %r" % (exc,), case)
    ctx.states += 1
    ctx.traces += 1


def _empty_lists(job, ctx):
    """secrets next to typed lists that are empty (assigned [], emptied in place, an empty declared default): in every
    format - also the ones that can carry arbitrary objects - the output holds no plaintext and loads back"""
    import cincoconfig as cc
    tmp = ctx.tmp
    write_keys(tmp)
    method, only = job["method"], job.get("only")
    P = PLAINTEXTS["long40"]
    for how in ("assigned", "emptied", "default"):
        for fmt in ("json", "yaml", "xml", "bson", "pickle"):
            ident = [how, fmt]
            if only is not None and only != ident:
                continue
            s = build(method, [], tmp)
            if how == "default":
                s.ls = cc.ListField(cc.SecureField(method=method), default=list)
                s.nums = cc.ListField(cc.IntField(), default=[])
            else:
                s.nums = cc.ListField(cc.IntField())
            cfg = cc.Config(s, key_filename=keypath(tmp, "root"))
            cfg.s = P
            cfg.sub.deep.s = P
            if how == "assigned":
                cfg.ls, cfg.items, cfg.ts, cfg.nums = [], [], [], []
            elif how == "emptied":
                cfg.ls, cfg.items, cfg.ts, cfg.nums = [P], [{"s": P}], [{"s": P}], [1]
                cfg.ls.pop(); cfg.items.clear(); del cfg.ts[0]; cfg.nums.remove(1)
            case = _case(job, ident)
            fpb = "C03|empty-lists|%s|%s|%s|" % (how, method, fmt)
            ctx.transitions += 1
            try:
                data = cfg.dumps(fmt)
            except Exception as exc:  # noqa
                ctx.violation(fpb + "dumps-raises", "saving a configuration with secrets and empty typed lists raised %r" % (exc,), case)
                continue
            ctx.case(("empty-lists", how, method, fmt), "empty-lists:ok", True)
            raw = P.encode()
            for needle in (raw, base64.b64encode(raw), raw.hex().encode()):
                if needle in data:
                    ctx.violation(fpb + "plaintext-in-output", "the %s document contains the plaintext of a secret" % fmt, case)
                    break
            try:
                fresh = cc.Config(s, key_filename=keypath(tmp, "root"))
                fresh.loads(data, fmt)
                if [fresh.s, fresh.sub.deep.s] != [P, P]:
                    ctx.violation(fpb + "reload-differs", "after reload the secrets read %r" % ([fresh.s, fresh.sub.deep.s],), case)
            except BaseException as exc:  # noqa  (RecursionError included)
                ctx.violation(fpb + "reload-raises", "loading the document back raised %s" % type(exc).__name__, case)
    ctx.states += 1
    ctx.traces += 1


def _late_keydir(job, ctx):
    """the directory of the (not yet existing) key file is missing at the first save, which therefore fails; it is then created
    and the same object saves again: every secret of that document is encrypted under the key that is in the key file"""
    import os
    import cincoconfig as cc
    tmp = ctx.tmp
    method, only = job["method"], job.get("only")
    P = PLAINTEXTS["long40"]
    for nsecrets in (1, 3):
        for fmt in ("json", "xml"):
            for retries in (1, 2):
                ident = [nsecrets, fmt, retries]
                if only is not None and only != ident:
                    continue
                kdir = os.path.join(tmp, "late-%d-%s-%d" % (nsecrets, fmt, retries))
                kpath = os.path.join(kdir, "app.key")
                s = build(method, [], tmp)
                cfg = cc.Config(s, key_filename=kpath)
                cfg.s = P
                if nsecrets > 1:
                    cfg.sub.s = P
                    cfg.ls = [P]
                case = _case(job, ident)
                fpb = "C03|late-key-directory|%s|%s|" % (method, fmt)
                ctx.transitions += 1
                failed = 0
                for _ in range(retries):
                    try:
                        cfg.dumps(fmt)
                    except Exception:  # noqa
                        failed += 1
                if failed != retries:
                    ctx.violation(fpb + "saved-without-key-file", "a save succeeded although the key file could not be created (no directory)", case)
                    continue
                os.makedirs(kdir)
                try:
                    data = cfg.dumps(fmt)
                    tree = cfg.to_tree()
                except Exception as exc:  # noqa
                    ctx.violation(fpb + "retry-raises", "with the directory in place the save raised %r" % (exc,), case)
                    continue
                ctx.case(("late-keydir", method, nsecrets, fmt, retries), "late-keydir:ok", True)
                if not os.path.isfile(kpath):
                    ctx.violation(fpb + "no-key-file", "the save succeeded but there is no key file", case)
                    continue
                key = open(kpath, "rb").read()
                for pos, sv in collect_secrets(tree):
                    if isinstance(sv, dict) and _try(sv.get("method"), key, base64.b64decode(sv.get("ciphertext", ""))) != P.encode():
                        ctx.violation(fpb + "not-under-key-file|" + _poskind(pos), "%s does not decrypt under the key that is in the key file" % pos, case)
                try:
                    fresh = cc.Config(s, key_filename=kpath)
                    fresh.loads(data, fmt)
                    if fresh.s != P:
                        ctx.violation(fpb + "reload-differs", "a new configuration with the same key file reads %r" % (fresh.s,), case)
                except Exception as exc:  # noqa
                    ctx.violation(fpb + "reload-raises", "a new configuration with the same key file cannot load the document: %r" % (exc,), case)
    ctx.states += 1
    ctx.traces += 1


def _dict_and_late(job, ctx):
    """secrets held as values of a typed dict (root, nested section with its own key file, items of a list of
    configurations) and a secret field declared under a key that the configuration first held as an undeclared
    (dynamic) value: in every format the output holds no plaintext, carries method + ciphertext that the reference
    cipher inverts under the section's key file, and loads back"""
    import cincoconfig as cc
    tmp = ctx.tmp
    write_keys(tmp)
    method, only = job["method"], job.get("only")
    P, Q = PLAINTEXTS["long40"], PLAINTEXTS["padded"]
    for where in ("dict-root", "dict-sub-ownkey", "dict-in-item", "late-over-dynamic", "late-over-dynamic-sub"):
        for fmt in ("json", "yaml", "xml", "bson", "pickle"):
            ident = [where, fmt]
            if only is not None and only != ident:
                continue
            s = cc.Schema(dynamic=True)
            s.plain = cc.StringField(default="visible")
            s.sub = cc.Schema(dynamic=True)
            s.sub.plain = cc.StringField(default="v")
            item = cc.Schema()
            item.d = cc.DictField(cc.StringField(), cc.SecureField(method=method))
            s.items = cc.ListField(item)
            s.d = cc.DictField(cc.StringField(), cc.SecureField(method=method))
            s.sub.d = cc.DictField(cc.StringField(), cc.SecureField(method=method))
            cfg = cc.Config(s, key_filename=keypath(tmp, "root"))
            expect = {}      # tree path -> (plaintext, key name)
            if where == "dict-root":
                cfg.d = {"a": P}; cfg.d["b"] = Q
                expect = {("d", "a"): (P, "root"), ("d", "b"): (Q, "root")}
            elif where == "dict-sub-ownkey":
                cfg.sub._key_filename = keypath(tmp, "sub")
                cfg.sub.d = {"a": P}; cfg.sub.d.update(b=Q)
                expect = {("sub", "d", "a"): (P, "sub"), ("sub", "d", "b"): (Q, "sub")}
            elif where == "dict-in-item":
                cfg.items = [{"d": {"a": P}}]; cfg.items[0].d["b"] = Q
                expect = {("items", 0, "d", "a"): (P, "root"), ("items", 0, "d", "b"): (Q, "root")}
            elif where == "late-over-dynamic":
                cfg.late = "earlier-undeclared"
                s.late = cc.SecureField(method=method)
                cfg.late = P
                expect = {("late",): (P, "root")}
            else:
                cfg.sub._key_filename = keypath(tmp, "sub")
                cfg.sub.late = "earlier-undeclared"
                s.sub.late = cc.SecureField(method=method)
                cfg.sub.late = P
                expect = {("sub", "late"): (P, "sub")}
            case = _case(job, ident)
            fpb = "C03|dict-and-late|%s|%s|%s|" % (where, method, fmt)
            ctx.transitions += 1
            try:
                data = cfg.dumps(fmt)
                tree = cfg.to_tree()
            except Exception as exc:  # noqa
                ctx.violation(fpb + "dumps-raises", "saving raised %r" % (exc,), case)
                continue
            ctx.case(("dict-and-late", where, method, fmt), "dict-and-late:ok", True)
            for pt in (P, Q):
                raw = pt.encode()
                if any(n in data for n in (raw, base64.b64encode(raw), raw.hex().encode(), json.dumps(pt).encode()[1:-1])):
                    ctx.violation(fpb + "plaintext-in-output", "the %s document contains the plaintext of a secret" % fmt, case)
                    break
            for path, (pt, keyname) in expect.items():
                node = tree
                try:
                    for k in path:
                        node = node[k]
                except Exception:  # noqa
                    node = None
                if not (isinstance(node, dict) and node.get("method") in ("aes", "xor") and isinstance(node.get("ciphertext"), str)):
                    ctx.violation(fpb + "not-method-ciphertext", "the rendered secret at %r is %s, not {method, ciphertext}" % (path, type(node).__name__), case)
                    continue
                try:
                    got = ref_decrypt(node["method"], KEYS[keyname], base64.b64decode(node["ciphertext"]))
                except Exception:  # noqa
                    got = None
                if got != pt.encode():
                    ctx.violation(fpb + "wrong-key-or-cipher", "the ciphertext at %r does not decrypt to the secret under key file %r" % (path, keyname), case)
            try:
                fresh = cc.Config(s, key_filename=keypath(tmp, "root"))
                if "sub" in where:
                    fresh.sub._key_filename = keypath(tmp, "sub")
                fresh.loads(data, fmt)
                for path, (pt, _) in expect.items():
                    node = fresh
                    for k in path:
                        node = node[k]
                    if node != pt:
                        ctx.violation(fpb + "reload-differs", "after reload the secret at %r differs" % (path,), case)
            except BaseException as exc:  # noqa
                ctx.violation(fpb + "reload-raises", "loading the document back raised %s" % type(exc).__name__, case)
    ctx.states += 1
    ctx.traces += 1


def run_job(job, ctx):
    single = job.get("single")
    if single:
        job = dict(single["jobparams_full"]); job["only"] = single["only"]
    if job.get("kind") == "late-keydir":
        return _late_keydir(job, ctx)
    if job.get("kind") == "unassigned":
        return _unassigned(job, ctx)
    if job.get("kind") == "empty-lists":
        return _empty_lists(job, ctx)
    if job.get("kind") == "dict-and-late":
        return _dict_and_late(job, ctx)
    only = job.get("only")
    CTMODE[0] = job.get("ctmode", "class")
    if only is None and job.get("new_process") or (only is not None and only[1] == ["new-process"]):
        new_process_session(ctx, job, (only or [job["plaintexts"][0]])[0])
        if only is not None:
            return
    for pname in job["plaintexts"]:
        for hist in histories(job["depth"]):
            if only is not None and only != [pname, hist]:
                continue
            run_history(ctx, job, pname, hist)
    ctx.states += 1
    ctx.sample({"placement": job["placement"], "method": job["method"], "format": job["fmt"], "history": histories(job["depth"])[-1]})


def _case(job, only):
    return {"jobparams_full": {k: v for k, v in job.items() if k not in ("single", "only")}, "only": only, "job": job["name"]}


def xor(key, data):
    return bytes(b ^ key[i % 32] for i, b in enumerate(data))


def ref_decrypt(method, key, ct):
    if method == "xor":
        return xor(key, ct)
    if method == "aes":
        if len(ct) < 32 or len(ct) % 16:
            raise ValueError("not an AES value")
        return RA.cbc_decrypt(key, ct[:16], ct[16:])
    raise ValueError("method %r" % (method,))


def collect_secrets(tree, pre=""):
    """(position, stored value) for every secret position of the rendered tree"""
    out = []
    if "s" in tree:
        out.append((pre + "s", tree["s"]))
    if isinstance(tree.get("sub"), dict):
        out += [(pre + "sub." + p, v) for p, v in collect_secrets(tree["sub"])]
    if isinstance(tree.get("deep"), dict):
        out += [(pre + "deep." + p, v) for p, v in collect_secrets(tree["deep"])]
    if isinstance(tree.get("inner"), dict):
        out += [(pre + "inner." + p, v) for p, v in collect_secrets(tree["inner"])]
    if isinstance(tree.get("t"), dict):
        out += [(pre + "t." + p, v) for p, v in collect_secrets(tree["t"])]
    for i, v in enumerate(tree.get("ls") or []):
        out.append(("%sls[%d]" % (pre, i), v))
    for i, it in enumerate(tree.get("items") or []):
        out += [("%sitems[%d].%s" % (pre, i, p), v) for p, v in collect_secrets(it)]
    for i, it in enumerate(tree.get("ts") or []):
        out += [("%sts[%d].%s" % (pre, i, p), v) for p, v in collect_secrets(it)]
    return out


def read_secrets(cfg):
    out = {"s": cfg.s, "sub.s": cfg.sub.s, "sub.deep.s": cfg.sub.deep.s, "t.s": cfg.t.s}
    for i, v in enumerate(cfg.ls or []):
        out["ls[%d]" % i] = v
    for i, it in enumerate(cfg.items or []):
        out["items[%d].s" % i] = it.s
        out["items[%d].inner.s" % i] = it.inner.s
    for i, it in enumerate(cfg.ts or []):
        out["ts[%d].s" % i] = it.s
    return out


def run_history(ctx, job, pname, hist):
    import cincoconfig as cc
    tmp = ctx.tmp
    write_keys(tmp)
    placement, method, fmt = job["placement"], job["method"], job["fmt"]
    p = PLAINTEXTS[pname]
    p2 = p[::-1] + "#2"
    schema = build(method, placement, tmp)
    cfg = new_config(schema, placement, tmp)
    model = Model(placement)
    fpb = "C03|%s|%s|%s|" % ("+".join(placement) or "none", method, fmt)
    case = _case(job, [pname, hist])
    failed = [False]

    def bad(what, msg):
        failed[0] = True
        ctx.violation(fpb + what, "placement %s, plaintext %s, history %s: %s" % (placement or "none", pname, hist, msg), case, size=len(hist))

    swapped = {}        # after "rotate-root-file": which key a file holds now (the root's and the spare file trade contents)

    def keyname_of(path):
        for n in KEYS:
            if realpath(tmp, n) == path:
                return swapped.get(n, n)
        return None

    def check_access(log, designated, what):
        touched = {}
        for path, mode in log:
            n = keyname_of(path)
            if n is not None:
                touched.setdefault(n, set()).add(mode)
        extra = sorted(n for n in touched if n not in designated)
        if extra:
            bad("other-keyfile-touched|%s" % ("default" if "default" in extra else "named"),
                "%s opened key file(s) %s; only %s are designated" % (what, extra, sorted(designated)))
        for n, modes in touched.items():
            if "w" in modes:
                bad("keyfile-written", "%s opened key file %s for writing" % (what, n))

    def verify(step):
        """render, scan, decrypt with the reference under the designated key only, reload into a fresh configuration"""
        try:
            with core.audit_opens() as log:
                data = cfg.dumps(fmt)
            tree = cfg.to_tree()
        except Exception as exc:  # noqa
            bad("dumps-raises|" + step, "dumps raised %r" % (exc,))
            return
        designated = {model.key_for(pos) for pos, v in model.secrets.items() if v}
        check_access(list(log), designated, "dumps")
        for pos, plain in model.secrets.items():
            raw = plain.encode()
            for needle in (raw, base64.b64encode(raw), raw.hex().encode(), json.dumps(plain).encode()[1:-1]):
                if needle in data:
                    bad("plaintext-in-output", "the %s document contains the plaintext of %s" % (fmt, pos))
                    break
        stored = dict(collect_secrets(tree))
        for pos, plain in model.secrets.items():
            sv = stored.get(pos)
            if not isinstance(sv, dict) or sv.get("method") not in ("aes", "xor") or not isinstance(sv.get("ciphertext"), str):
                bad("stored-shape", "%s is stored as %s" % (pos, V.show(sv, 60)))
                continue
            if method in ("aes", "best") and sv["method"] != "aes" or method == "xor" and sv["method"] != "xor":
                bad("stored-method", "%s records method %r for a %s field" % (pos, sv["method"], method))
            ct = base64.b64decode(sv["ciphertext"])
            want_key = model.key_for(pos)
            for kname, key in KEYS.items():
                try:
                    got = ref_decrypt(sv["method"], key, ct)
                except Exception:  # noqa
                    got = None
                if kname == want_key and got != plain.encode():
                    others = [n for n, k in KEYS.items() if _try(sv["method"], k, ct) == plain.encode()]
                    bad("wrong-key|%s" % _poskind(pos), "%s must be encrypted under the %s key file, but that key does not decrypt it (keys that do: %s)"
                        % (pos, want_key, others or "none"))
                elif kname != want_key and got == plain.encode() and KEYS[kname] != KEYS[want_key]:
                    bad("decrypts-under-other-key", "%s decrypts under the %s key file as well" % (pos, kname))
        # (c) a new configuration object with the same key-file assignment reads everything back
        fresh = _fresh_from_model(model)
        try:
            with core.audit_opens() as log2:
                fresh.loads(data, fmt)
        except Exception as exc:  # noqa
            bad("reload-raises|" + _blame(exc), "a fresh configuration with the same key files fails to load the document: %s" % (exc,))
            return
        check_access(list(log2), designated, "loads")
        got = read_secrets(fresh)
        for pos, plain in model.secrets.items():
            if got.get(pos) != plain:
                bad("reload-differs|%s" % _poskind(pos), "after reload %s reads %r" % (pos, got.get(pos)))
        # (d) the rendered sub-trees handed to a new object as constructor keywords (only where every position resolves to
        #     the root's key file or a config type's own one: sub-configurations cannot be given a key file that way)
        if model.own["sub"] is None and model.own["deep"] is None and (model.own["ct"] is None or CTMODE[0] == "class") and not failed[0]:
            parts = {k: tree[k] for k in ("sub", "t", "items", "ts") if tree.get(k) is not None}
            try:
                with core.audit_opens() as log3:
                    sch3 = build(method, placement, tmp)
                    built3 = cc.Config(sch3, key_filename=keypath(tmp, swapped.get(model.own["root"], model.own["root"])), **parts) if model.own["root"] else sch3(**parts)
            except Exception as exc:  # noqa
                bad("ctor-raises|" + _blame(exc), "a new configuration given the rendered sub-trees as constructor keywords (and the same key file) raised: %s" % (exc,))
                return
            check_access(list(log3), designated, "constructor")
            got3 = read_secrets(built3)
            for pos, plain in model.secrets.items():
                if pos != "s" and not pos.startswith("ls[") and got3.get(pos) != plain:
                    bad("ctor-differs|%s" % _poskind(pos), "built from constructor keywords, %s reads %r" % (pos, got3.get(pos)))

    def _fresh_from_model(m):
        # a new configuration object whose key-file assignment is exactly the model's current one
        sch = build(method, placement, tmp)
        c = cc.Config(sch, key_filename=keypath(tmp, swapped.get(m.own["root"], m.own["root"]))) if m.own["root"] else sch()
        _apply_model_keys(c, m, tmp)
        return c

    def _apply_model_keys(c, m, t):
        # the fresh configuration gets the *current* key-file assignment of the model
        if m.own["root"]:
            c._key_filename = keypath(t, swapped.get(m.own["root"], m.own["root"]))      # (the file that holds that key now)
        if m.own["sub"]:
            c.sub._key_filename = keypath(t, m.own["sub"])
        if m.own["deep"]:
            c.sub.deep._key_filename = keypath(t, m.own["deep"])
        if m.own["ct"] and CTMODE[0] == "instance":
            c.t._key_filename = keypath(t, m.own["ct"])

    for i, op in enumerate(hist):
        ctx.transitions += 1
        try:
            if op == "assign-attr":
                cfg.s = p; cfg.sub.s = p; cfg.sub.deep.s = p; cfg.t.s = p
                cfg.ls = [p, p2]
                cfg.items = [{"s": p, "inner": {"s": p2}}]
                cfg.ts = [{"s": p}]
                for k in [k for k in model.secrets if "[" in k]:
                    del model.secrets[k]          # the lists were replaced as a whole
                model.secrets.update({"s": p, "sub.s": p, "sub.deep.s": p, "t.s": p, "ls[0]": p, "ls[1]": p2, "items[0].s": p, "items[0].inner.s": p2, "ts[0].s": p})
            elif op == "assign-tree":
                cfg.load_tree({"s": p, "sub": {"s": p, "deep": {"s": p2}}, "t": {"s": p}, "ls": [p], "items": [{"s": p2, "inner": {"s": p}}], "ts": [{"s": p2}]})
                model.secrets.clear()
                model.secrets.update({"s": p, "sub.s": p, "sub.deep.s": p2, "t.s": p, "ls[0]": p, "items[0].s": p2, "items[0].inner.s": p, "ts[0].s": p2})
            elif op == "only-ts":
                cfg.ts = [{"s": p}, {"s": p2}]
                model.secrets.clear()
                model.secrets.update({"ts[0].s": p, "ts[1].s": p2})
            elif op == "only-sub":
                cfg.sub.s = p
                model.secrets.clear()
                model.secrets.update({"sub.s": p})
            elif op == "append-ts":
                if cfg.ts is None:
                    cfg.ts = []
                j = len(cfg.ts)
                cfg.ts.append({"s": p2})
                model.secrets["ts[%d].s" % j] = p2
            elif op == "assign-subdict":
                cfg.sub = {"s": p2, "deep": {"s": p}}
                model.secrets.update({"sub.s": p2, "sub.deep.s": p})
            elif op == "same":
                data = cfg.dumps(fmt)
                cfg.loads(data, fmt)
            elif op == "fresh":
                data = cfg.dumps(fmt)
                nxt = _fresh_from_model(model)
                nxt.loads(data, fmt)
                cfg = nxt
            elif op == "files":
                path = os.path.join(tmp, "cfg." + fmt)
                cfg.save(path, fmt)
                nxt = _fresh_from_model(model)
                nxt.load(path, fmt)
                cfg = nxt
            elif op == "append":
                n = len(cfg.items or [])
                if cfg.items is None:
                    cfg.items = []
                cfg.items.append({"s": p2, "inner": {"s": p}})
                if cfg.ls is None:
                    cfg.ls = []
                k = len(cfg.ls)
                cfg.ls.append(p)
                if cfg.ts is None:
                    cfg.ts = []
                j = len(cfg.ts)
                cfg.ts.append({"s": p2})
                model.secrets.update({"items[%d].s" % n: p2, "items[%d].inner.s" % n: p, "ls[%d]" % k: p, "ts[%d].s" % j: p2})
            elif op == "adopt-item":
                # an item configuration that belongs to another root's list (other key file) is appended here as an object
                other = cc.Config(build(method, placement, tmp), key_filename=keypath(tmp, "root2"))
                other.items = [{"s": p2, "inner": {"s": p}}]
                other.dumps(fmt)
                it = other.items[0]
                if cfg.items is None:
                    cfg.items = []
                n = len(cfg.items)
                cfg.items.append(it)
                model.secrets.update({"items[%d].s" % n: p2, "items[%d].inner.s" % n: p})
            elif op == "adopt-extend":
                # the items of another root built from the *same* schema (other key file) are taken over wholesale:
                # extend() with the other list for plain item schemas, += for config-type items
                other = cc.Config(schema, key_filename=keypath(tmp, "root2"))
                other.items = [{"s": p2, "inner": {"s": p}}, {"s": p}]
                other.ts = [{"s": p2}]
                other.dumps(fmt)
                if cfg.items is None:
                    cfg.items = []
                n = len(cfg.items)
                cfg.items.extend(other.items)
                model.secrets.update({"items[%d].s" % n: p2, "items[%d].inner.s" % n: p, "items[%d].s" % (n + 1): p})
                if cfg.ts is None:
                    cfg.ts = []
                n = len(cfg.ts)
                cfg.ts += other.ts
                model.secrets.update({"ts[%d].s" % n: p2})
            elif op == "attach-used":
                # configurations that were used on their own first (no parent, default key file) are attached to this tree
                obj = schema._fields["sub"]()
                obj.s = p2
                obj.deep.s = p
                obj.dumps(fmt)
                cfg.sub = obj
                model.own["sub"] = None
                model.own["deep"] = None
                model.secrets.update({"sub.s": p2, "sub.deep.s": p})
                it = schema._fields["items"].field()
                it.s = p
                it.inner.s = p2
                it.dumps(fmt)
                if cfg.items is None:
                    cfg.items = []
                n = len(cfg.items)
                cfg.items.append(it)
                model.secrets.update({"items[%d].s" % n: p, "items[%d].inner.s" % n: p2})
            elif op == "pin-sub":
                pinned = model.own["sub"] or model.own["root"] or "default"
                cfg.sub._key_filename = keypath(tmp, pinned)
                model.own["sub"] = pinned
            elif op == "rekey-root":
                cfg.dumps(fmt)                      # the key files have been used
                cfg._key_filename = keypath(tmp, "root2")
                model.own["root"] = swapped.get("root2", "root2")       # (the key that file holds now)
            elif op == "failed-sub-load":
                # a document whose nested section is rejected half-way: nothing changes, the key files least of all
                cfg.dumps(fmt)
                for bad_tree in ({"sub": {"s": 5}}, {"sub": {"deep": {"s": ["x"]}, "s": p2}}, {"sub": {"nosuchfield": 1}}):
                    try:
                        cfg.load_tree(bad_tree)
                        bad("bad-tree-accepted", "the tree %r was accepted" % (bad_tree,))
                    except Exception:  # noqa
                        pass
            elif op == "rotate-root-file":
                # key rotation: the key file keeps its name, its content is replaced (here: traded with the spare file's)
                cfg.dumps(fmt)
                if model.own["root"] == "root" and not swapped:
                    a, b = realpath(tmp, "root"), realpath(tmp, "root2")
                    ka, kb = open(a, "rb").read(), open(b, "rb").read()
                    open(a, "wb").write(kb); open(b, "wb").write(ka)
                    swapped.update({"root": "root2", "root2": "root"})
                    model.own["root"] = "root2"          # (the name the model uses for "the key that file holds")
            elif op == "rekey-sub":
                cfg.dumps(fmt)
                cfg.sub._key_filename = keypath(tmp, "sub2")
                model.own["sub"] = "sub2"
            elif op == "move-sub":
                cfg.dumps(fmt)
                other = cc.Config(build(method, placement, tmp), key_filename=keypath(tmp, "root2"))
                other.sub = cfg.sub
                moved = {k: v for k, v in model.secrets.items() if k.startswith("sub.")}
                model.secrets.clear()
                model.secrets.update(moved)
                model.own["root"] = swapped.get("root2", "root2")
                if CTMODE[0] == "instance":
                    model.own["ct"] = None        # the new root's config-type instance was never given a key file of its own
                cfg = other
        except Exception as exc:  # noqa
            bad("op-raises|%s|%s" % (op, _blame(exc)), "step %d (%s) raised %r" % (i, op, exc))
            break
        verify("%d:%s" % (i, op))
        if failed[0]:
            break
    ctx.case((tuple(job["placement"]), method, fmt, pname, tuple(hist)), "history:%s:%s" % (hist[-1], "bad" if failed[0] else "ok"),
             bool(job["placement"]) or len(hist) > 1)
    ctx.traces += 1


def _try(method, key, ct):
    try:
        return ref_decrypt(method, key, ct)
    except Exception:  # noqa
        return None


def _poskind(pos):
    if pos.startswith("items"):
        return "item-inner" if "inner" in pos else "item"
    if pos.startswith("ts"):
        return "ctype-item"
    if pos.startswith("ls"):
        return "list"
    return pos


def _blame(exc):
    s = str(exc)
    for k in ("sub.deep.s", "sub.s", "t.s", "items", "ts", "ls"):
        if k in s:
            return k.split("[")[0]
    return type(exc).__name__
