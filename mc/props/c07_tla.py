"""
C07 secondary model: tla/KeyFile.tla is checked by TLC (invariants NoRetention, OnlyValidKeys,
NestedShareKey) and its *complete* state graph (tlc -dump dot,actionlabels) is replayed against the
implementation: for every edge, a shortest path from the initial state to the edge's source plus the
edge itself is executed on real KeyFile objects over a real file, and the observable projection of
every state passed through is compared with the model state.
"""
import collections
import os
import re
import shutil
import subprocess

from mc import core
from mc.props import c07

NODE = re.compile(r'^(-?\d+) \[label="((?:[^"\\]|\\.)*)"')
EDGE = re.compile(r'^(-?\d+) -> (-?\d+) \[label="((?:[^"\\]|\\.)*)"')


def parse_state(label):
    label = label.replace("\\n", "\n").replace('\\"', '"').replace("\\\\", "\\")
    st = {}
    for line in label.split("\n"):
        m = re.match(r"\s*/\\\s*(\w+) = (.*)$", line)
        if not m:
            continue
        name, val = m.group(1), m.group(2).strip()
        if val.startswith("<<"):
            items = [x.strip() for x in val[2:-2].split(",")]
            st[name] = [int(x) if re.fullmatch(r"-?\d+", x) else x.strip('"') for x in items]
        elif re.fullmatch(r"-?\d+", val):
            st[name] = int(val)
        else:
            st[name] = val.strip('"')
    return st


def run_tlc(tmp):
    src = os.path.join(core.VERIF, "tla")
    work = os.path.join(tmp, "tlc")
    shutil.rmtree(work, ignore_errors=True)
    os.makedirs(work)
    for f in ("KeyFile.tla", "KeyFile.cfg"):
        shutil.copy(os.path.join(src, f), work)
    cmd = ["tlc", "-workers", "1", "-noGenerateSpecTE", "-deadlock", "-metadir", os.path.join(work, "meta"),
           "-dump", "dot,actionlabels", os.path.join(work, "graph"), "KeyFile.tla"]
    env = dict(os.environ)
    env.pop("PYTHONHASHSEED", None)
    env["JAVA_TOOL_OPTIONS"] = (env.get("JAVA_TOOL_OPTIONS", "") + " -Djava.io.tmpdir=" + work).strip()      # TLC's scratch directory goes with the job's
    r = subprocess.run(cmd, cwd=work, capture_output=True, text=True, env=env, timeout=900)
    out = r.stdout + r.stderr
    if "No error has been found" not in out:
        raise core.HarnessError("TLC did not complete cleanly:\n" + out[-2000:])
    m = re.search(r"(\d+) states generated, (\d+) distinct states found", out)
    return os.path.join(work, "graph.dot"), int(m.group(1)), int(m.group(2))


def load_graph(path):
    nodes, edges = {}, collections.defaultdict(list)
    init = None
    for line in open(path, encoding="utf-8"):
        m = EDGE.match(line)
        if m:
            edges[m.group(1)].append((m.group(2), m.group(3).replace('\\"', '"')))
            continue
        m = NODE.match(line)
        if m and m.group(1) not in nodes:
            nodes[m.group(1)] = parse_state(m.group(2))
            if "style = filled" in line:
                init = m.group(1)
    return nodes, edges, init


def action_to_ops(label, target):
    """TLA action label + target state's `last` -> operation on the real world."""
    m = re.match(r"(\w+)\((.*)\)", label)
    name, arg = (m.group(1), m.group(2).strip('"')) if m else (label, "")
    if name in ("EnterCached", "EnterLoad", "EnterGenerate"):
        return ["enter", int(arg) - 1], "ok"
    if name == "EnterReject":
        return ["enter", int(arg) - 1], "EncryptionError"
    if name == "Exit":
        return ["exit", int(arg) - 1], "ok"
    if name == "New":
        return ["new", int(arg) - 1], "ok"
    if name == "SetFile":
        return ["setfile", arg], "ok"
    raise core.HarnessError("unknown action " + label)


def observe(w, gen_binding):
    """Observable projection of the real world."""
    data = w.read_file()
    if data is None:
        f = "absent"
    elif data == c07.KEY_A:
        f = "A"
    elif data == c07.KEY_B:
        f = "B"
    elif data in gen_binding:
        f = gen_binding[data]
    elif isinstance(data, bytes) and data == b"k" * len(data) and len(data) != 32:
        f = "bad%d" % len(data)
    else:
        f = "other:%r" % (data,)
    keys = []
    for i, obj in enumerate(w.objs):
        r = w.real_step(["encrypt", i])
        if r[0] != "ok":
            keys.append("none")
            if c07.key_material(obj):
                keys[-1] = "none+retained"
            continue
        k = c07.xor_key(r[1].ciphertext)[:32]
        if k == c07.KEY_A:
            keys.append("A")
        elif k == c07.KEY_B:
            keys.append("B")
        elif k in gen_binding:
            keys.append(gen_binding[k])
        else:
            keys.append("other")
    return f, keys


def run(ctx):
    dot, generated, distinct = run_tlc(ctx.tmp)
    nodes, edges, init = load_graph(dot)
    if len(nodes) != distinct:
        raise core.HarnessError("parsed %d nodes, TLC reported %d distinct states" % (len(nodes), distinct))
    # shortest path to every node
    path = {init: []}
    q = collections.deque([init])
    while q:
        s = q.popleft()
        for t, lab in edges[s]:
            if t not in path:
                path[t] = path[s] + [(s, t, lab)]
                q.append(t)
    if len(path) != len(nodes):
        raise core.HarnessError("graph not connected from the initial state")
    ctx.states += len(nodes)
    ctx.extra["tlc_states_generated"] = generated
    ctx.extra["tlc_distinct_states"] = distinct
    nedges = 0
    for s in nodes:
        for t, lab in edges[s]:
            nedges += 1
            _replay(ctx, nodes, path[s] + [(s, t, lab)])
    ctx.extra["tlc_edges_replayed"] = nedges
    ctx.sample({"tla_edge_path": [lab for _, _, lab in path[max(path, key=lambda k: len(path[k]))]]})
    ctx.closed = True


def _replay(ctx, nodes, steps):
    w = c07.World(ctx.tmp, 2)
    gen_binding = {}
    labels = [lab for _, _, lab in steps]
    for idx, (s, t, lab) in enumerate(steps):
        op, expect = action_to_ops(lab, nodes[t])
        real = w.real_step(op)
        last = idx == len(steps) - 1
        if last:
            ctx.transitions += 1
            ctx.traces += 1
            ctx.case(("tla", s, t, lab), "tla:" + lab.split("(")[0], True)
        fp = "C07|tla|%s|" % lab.split("(")[0]

        def bad(what, msg):
            ctx.violation(fp + what, "TLA+ trace %s: %s" % (labels[: idx + 1], msg),
                          {"tla_labels": labels[: idx + 1], "job": "tla"}, size=idx)
        if expect == "ok" and real[0] != "ok":
            if last:
                bad("unexpected-error", "implementation raised %r" % (real[1],))
            return
        if expect != "ok":
            if real[0] == "ok":
                if last:
                    bad("no-error", "model rejects the key file, implementation entered the context")
                return
            if type(real[1]).__name__ != expect and last:
                bad("wrong-error-class", "raised %s, expected %s" % (type(real[1]).__name__, expect))
        st = nodes[t]
        if lab.startswith("EnterGenerate") and real[0] == "ok":
            data = w.read_file()
            if isinstance(data, bytes) and data not in gen_binding:
                gen_binding[data] = "G%d" % (len(gen_binding) + 1)
        f, keys = observe(w, gen_binding)
        if last:
            if f != st["file"]:
                bad("file", "file is %s, model says %s" % (f, st["file"]))
            if keys != st["key"]:
                bad("keys", "keys in use %s, model says %s" % (keys, st["key"]))


def replay_single(ctx, labels):
    """--replay of a stored TLA+ label sequence: re-derive the graph and re-execute that path."""
    dot, _, _ = run_tlc(ctx.tmp)
    nodes, edges, init = load_graph(dot)
    steps, cur = [], init
    for lab in labels:
        nxt = [t for t, l in edges[cur] if l == lab]
        if not nxt:
            raise core.HarnessError("label %s not enabled in the model after %s" % (lab, labels))
        steps.append((cur, nxt[0], lab))
        cur = nxt[0]
    _replay(ctx, nodes, steps)
