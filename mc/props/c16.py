"""
C16 - all ways of naming a field agree; command-line overrides touch only what's given.

All schema trees within the depth/width bound are built; for each, every path reported by field
enumeration is resolved through every naming route, the generated argument parser is inspected, and
*every subset* of its options (each boolean: absent / on / off) is parsed by the real parser and
applied with *every* ignore list over the supplied destinations, from two configuration states.
"""
import io
import os
import json
import itertools
import contextlib

from mc import values as V

PROP = "C16"
LEVEL = "model_checking"
RULE = ("all schema trees in the bound x {default state, all-assigned state} x every subset of generated options x every "
        "ignore list; non-trivial = at least one option supplied or a nested path; distinct = distinct (schema, state, "
        "command line, ignore list)")
ASSUMPTIONS = ["argparse is the command-line parser", "keys are identifiers that do not collide after the '.'/'_' to '-' mapping"]

KEYS = ["a", "b_c", "port"]
CMD_VALUE = {"Int": ("7", 7), "Str": ("hello", "hello"), "Float": ("2.5", 2.5), "Include": ("inc.cfg", "inc.cfg"),
             # an empty value is a value; string fields with choices normalise what the user typed before judging it
             "Number": ("8", 8), "Limit": ("50", 50), "Bounded": ("5", 5), "StrEmpty": ("", ""), "Level": ("DEBUG", "debug"), "Mode": (" Production ", "production"), "Choice": (" B ", "b"),
             # required fields without a default: the value normally comes from the configuration file, so the option stays optional
             "Required": ("9", 9), "ReqStr": ("given", "given")}
ASSIGN = {"Int": 3, "Str": "s", "Float": 1.25, "Bool": None, "List": [2], "Include": "inc2.cfg", "Number": 4, "Limit": 40, "Bounded": 3, "StrEmpty": "s", "Level": "error", "Mode": "development",
          "Choice": "a", "Required": 6, "ReqStr": "file"}
# schemas holding an include field (a persistent string-valued scalar like any other file name field)
INCLUDE_SPECS = [[["a", "Include"]], [["a", "Int"], ["b_c", "Include"]], [["a", [["a", "Include"]]]],
                 [["a", [["a", "Int"], ["b_c", "Include"]]], ["b_c", "Bool"]], [["a", [["a", [["a", "Include"]]], ["b_c", "Bool"]]]]]
ENV_OPTS = [False, True, "C16PFX", None]
VALUE_SPECS = [[["a", "Limit"], ["b_c", "Bounded"]], [["a", [["a", "Limit"], ["b_c", "Bounded"]]], ["b_c", "Str"]], [["b_c", [["a", [["a", "Limit"], ["b_c", "Bounded"]]]]]],
               [["a", "Number"]], [["a", [["a", "Number"], ["b_c", "Bool"]]]], [["a", "StrEmpty"]], [["a", "Level"], ["b_c", "Mode"]], [["a", [["a", "Choice"], ["b_c", "StrEmpty"]]], ["b_c", "Level"]],
               [["a", [["a", [["a", "Mode"]]], ["b_c", "Int"]]], ["port", "Choice"]],
               [["a", "Required"]], [["a", [["a", "Required"], ["b_c", "Bool"]]], ["b_c", "ReqStr"]], [["a", "ReqStr"], ["b_c", [["a", [["a", "Required"]]]]]]]


# sections without any declared field: created by a bare attribute access / mounted explicitly (also as a dynamic section)
EMPTY_SPECS = [[["a", []]], [["a", "Int"], ["b_c", []]], [["a", [["a", []], ["b_c", "Bool"]]]], [["a", [["a", "Int"]]], ["b_c", []]],
               [["a", "EmptyDyn"]], [["a", "Str"], ["b_c", "EmptyDyn"]], [["a", [["a", "EmptyDyn"], ["b_c", "Int"]]]], [["a", [["a", [["a", []]]]]]]]


def schema_specs(tier):
    """-> list of specs; a spec is a list of [key, kind-or-subspec]"""
    if tier == "thorough":
        l3 = [[[KEYS[0], k]] for k in ("Int", "Bool", "Str")]
        l2k = ["Int", "Str", "Bool", "List"]
        l1k = ["Int", "Str", "Float", "Bool", "List"]
        w2 = 2
    else:
        l3 = [[[KEYS[0], "Int"]], [[KEYS[0], "Bool"]]]
        l2k = ["Int", "Bool"]
        l1k = ["Int", "Str", "Float", "Bool", "List"]
        w2 = 2

    def level(kinds, subs, width):
        opts = list(kinds) + subs
        out = []
        for w in range(1, width + 1):
            for combo in itertools.product(opts, repeat=w):
                out.append([[KEYS[i], c] for i, c in enumerate(combo)])
        return out
    l2 = level(l2k, l3, w2)
    l1 = level(l1k, l2, 2)
    if tier == "thorough":
        # width 3 at the root over scalar kinds and one representative nested schema per depth
        rep = [l3[0], l2[len(l2) // 2], l2[-1]]
        for combo in itertools.product(l1k + rep, repeat=3):
            l1.append([[KEYS[i], c] for i, c in enumerate(combo)])
    return l1


def build(spec, bool_flip=0, bottom_up=False):
    import cincoconfig as cc
    if bottom_up == "explicit-env":
        s = cc.Schema()
        _fill(s, spec, [bool_flip], explicit=[0])
        return s
    if bottom_up:
        return _bottom_up(spec, [bool_flip])
    s = cc.Schema()
    _fill(s, spec, [bool_flip])
    return s


def _bottom_up(spec, ctr):
    """sub-schemas are completed (and their fields' reference paths read) before they are mounted"""
    import cincoconfig as cc
    s = cc.Schema()
    for key, kind in spec:
        if isinstance(kind, list):
            sub = _bottom_up(kind, ctr)
            for _, _, f in cc.get_all_fields(sub):
                cc.item_ref_path(f)            # read while still unmounted
            setattr(s, key, sub)
        else:
            _fill(s, [[key, kind]], ctr)
    for _, _, f in cc.get_all_fields(s):
        cc.item_ref_path(f)
    return s


def _fill(s, spec, ctr, explicit=None):
    import cincoconfig as cc
    for key, kind in spec:
        if isinstance(kind, list) and explicit is not None:
            # the sub-schema is created by the user, with an environment option of its own, and mounted by attribute
            kw = {"env": ENV_OPTS[explicit[0] % len(ENV_OPTS)]}
            if explicit[0] % 2 == 0:
                kw["key"] = key              # the key is also given to the constructor (the documented idiom), with the mount name
            sub = cc.Schema(**kw)
            explicit[0] += 1
            setattr(s, key, sub)
            _fill(sub, kind, ctr, explicit)
        elif isinstance(kind, list):
            # (created by a bare attribute access, unless the key is spelled like an attribute of the schema class itself)
            _fill(s[key] if hasattr(cc.Schema, key) else getattr(s, key), kind, ctr)
        elif kind == "EmptyDyn":
            setattr(s, key, cc.Schema(dynamic=True))
        elif kind == "Include":
            setattr(s, key, cc.IncludeField())
        elif kind == "Limit":
            setattr(s, key, cc.IntField(default=10))
        elif kind == "Bounded":
            # validated against a sibling of its own (sub-)configuration: the key "a" next to it
            setattr(s, key, cc.IntField(default=1, validator=_bounded))
        elif kind == "Number":
            setattr(s, key, cc.NumberField(int, default=1))           # the generic number class, not one of its named subclasses
        elif kind == "Required":
            setattr(s, key, cc.IntField(required=True))
        elif kind == "ReqStr":
            setattr(s, key, cc.StringField(required=True))
        elif kind == "StrEmpty":
            setattr(s, key, cc.StringField(default="d"))
        elif kind == "Level":
            setattr(s, key, cc.LogLevelField(default="info"))
        elif kind == "Mode":
            setattr(s, key, cc.ApplicationModeField(default="development", create_helpers=False))
        elif kind == "Choice":
            setattr(s, key, cc.StringField(choices=["a", "b"], transform_case="lower", transform_strip=True, default="a"))
        elif kind == "Int":
            setattr(s, key, cc.IntField(default=1, **({"key": key} if explicit is not None else {})))
        elif kind == "Str":
            setattr(s, key, cc.StringField(default="d"))
        elif kind == "Float":
            setattr(s, key, cc.FloatField(default=0.5))
        elif kind == "Bool":
            ctr[0] += 1
            setattr(s, key, cc.BoolField(default=bool(ctr[0] % 2)))
        elif kind == "List":
            setattr(s, key, cc.ListField(cc.IntField(), default=[1]))


def _bounded(cfg, value):
    if value > cfg.a:
        raise ValueError("must not exceed the limit %r" % (cfg.a,))
    return value


def paths(spec, pre=""):
    """reference enumeration: (path, kind) in declaration order, nested schemas listed before their children"""
    out = []
    for key, kind in spec:
        p = pre + key
        if isinstance(kind, list):
            out.append((p, "Schema"))
            out += paths(kind, p + ".")
        elif kind == "EmptyDyn":
            out.append((p, "Schema"))
        else:
            out.append((p, kind))
    return out


def chained(obj, path):
    for part in path.split("."):
        obj = getattr(obj, part)
    return obj


def snapshot(cfg, spec):
    return tuple((p, V.canon(chained(cfg, p))) for p, k in paths(spec) if k != "Schema")


def bounds(tier):
    return {"schemas": len(schema_specs(tier)), "depth": 3, "root_width": 3 if tier == "thorough" else 2, "states": ["default", "assigned", "reloaded (sections replaced by a load after dotted-path use)"]}


def jobs(tier):
    specs = schema_specs(tier)
    n = 64 if tier == "thorough" else 16
    return [{"name": "schemas/%02d" % c, "specs": specs[c::n]} for c in range(n) if specs[c::n]] + [{"name": "schemas/include", "specs": INCLUDE_SPECS}, {"name": "schemas/values", "specs": VALUE_SPECS}, {"name": "schemas/empty-sections", "specs": EMPTY_SPECS}, {"name": "late-declared", "late_declared": True}]


def check_late_declared(ctx, only=None):
    """a dynamic configuration (and a dynamic section) holds ad-hoc values under keys that the schema declares afterwards: the
    generated options, dotted-path assignment and the override helper all go through the declared field from then on"""
    import cincoconfig as cc
    for where in ("root", "section"):
        for route in ("cmdline", "cmdline-invalid", "dotted", "dotted-invalid", "attr"):
            ident = [where, route]
            if only is not None and only != ident:
                continue
            case = {"late_declared": ident, "job": "late-declared"}
            try:
                s = cc.Schema(dynamic=True)
                s.pool = cc.Schema(dynamic=True)
                s.keep = cc.IntField(default=1)
                cfg = s()
                cfg.workers = "adhoc"
                cfg.pool.size = "adhoc-too"
                s.workers = cc.IntField(min=1, max=16, default=2)
                s.pool.size = cc.IntField(min=1, max=16, default=3)
            except Exception as exc:  # noqa
                ctx.violation("C16|late-declared|%s|setup-raises" % where, "declaring a dynamic schema with an (empty) dynamic section, storing ad-hoc values and declaring the keys afterwards raised %r" % (exc,), case)
                continue
            path = "workers" if where == "root" else "pool.size"
            opt = "--workers" if where == "root" else "--pool-size"
            ctx.transitions += 1
            try:
                if route.startswith("cmdline"):
                    parser = cc.generate_argparse_parser(s, add_help=False)
                    with contextlib.redirect_stderr(io.StringIO()):
                        ns = parser.parse_args([opt, "99" if route.endswith("invalid") else "8"])
                    cc.cmdline_args_override(cfg, ns)
                elif route.startswith("dotted"):
                    cfg[path] = "99" if route.endswith("invalid") else "8"
                else:
                    setattr(cfg if where == "root" else cfg.pool, path.split(".")[-1], "8")
                raised = None
            except BaseException as exc:  # noqa
                raised = exc
            got = cfg.workers if where == "root" else cfg.pool.size
            ctx.case(("late-declared", where, route), "late-declared:%s" % ("raised" if raised else "ok"), True)
            if route.endswith("invalid"):
                if raised is None:
                    ctx.violation("C16|late-declared|%s|%s|accepted" % (where, route), "an out-of-range value was accepted for the declared field %s (now %r)" % (path, got), case)
            elif raised is not None:
                ctx.violation("C16|late-declared|%s|%s|raises" % (where, route), "a valid value for %s raised %r" % (path, raised), case)
            elif got != 8 or type(got) is not int:
                ctx.violation("C16|late-declared|%s|%s|not-validated" % (where, route), "%s reads %r after the value '8' was given: the declared integer field did not handle it" % (path, got), case)
    ctx.traces += 1


def run_job(job, ctx):
    single = job.get("single")
    if single and single.get("late_declared"):
        check_late_declared(ctx, single["late_declared"])
        return
    if job.get("late_declared"):
        check_late_declared(ctx)
        return
    if single:
        if single.get("growth"):
            check_growth(ctx, single["spec"])
        else:
            check_schema(ctx, single["spec"], single.get("only"), bottom_up=single.get("bottom_up", False))
        return
    for spec in job["specs"]:
        check_schema(ctx, spec, None)
        if any(isinstance(k, list) for _, k in spec):
            check_schema(ctx, spec, None, bottom_up=True)
            check_schema(ctx, spec, None, bottom_up="explicit-env")
        if "Bool" in json.dumps(spec):
            check_schema(ctx, with_odd_keys(spec), None)
        if ("Float" in json.dumps(spec) or "Str" in json.dumps(spec)) and "Bounded" not in json.dumps(spec):      # (the Bounded validator reads its sibling by the key "a")
            check_schema(ctx, with_odd_keys(spec, ODD_KEYS2), None)
        check_growth(ctx, spec)
    ctx.sample({"schema": job["specs"][-1]})


ODD_KEYS = {"a": "x__y", "b_c": "z_", "port": "p_1__"}     # (a leading underscore is not a field key: the schema keeps such names for itself)


# keys with upper-case letters, and keys spelled like public methods of the schema class (a key is looked up as a key)
ODD_KEYS2 = {"a": "maxConn", "b_c": "make_type", "port": "validator"}


def with_odd_keys(spec, table=None):
    """the same tree with identifier keys that contain doubled / trailing / trailing underscores and digits"""
    table = table or ODD_KEYS
    return [[table.get(k, k), with_odd_keys(v, table) if isinstance(v, list) else v] for k, v in spec]


def check_schema(ctx, spec, only, bottom_up=False):
    import cincoconfig as cc
    ref_paths = paths(spec)
    fpb = "C16|explicit-env|" if bottom_up == "explicit-env" else ("C16|bottom-up|" if bottom_up else "C16|")
    for fname in ("inc.cfg", "inc2.cfg"):
        if not os.path.exists(fname):
            with open(fname, "w") as fh:
                fh.write("{}")
    case0 = {"spec": spec, "job": "schema", "bottom_up": bottom_up}

    def bad(what, msg, only_=None):
        c = dict(case0)
        if only_ is not None:
            c["only"] = only_
        ctx.violation(fpb + what, "schema %s: %s" % (spec, msg), c, size=len(str(spec)))

    try:
        schema = build(spec, bottom_up=bottom_up)
    except Exception as exc:  # noqa
        bad("build-raises", "declaring this schema (legal identifier keys only) raised %r" % (exc,))
        return
    ctx.states += 1
    env_set = []
    if bottom_up == "explicit-env":
        # every environment-bound scalar field finds its variable set (to a valid value): assignment by any route still wins
        import cincoconfig as _cc
        wanted = {}
        for _p, _o, _f in _cc.get_all_fields(schema):
            kind_ = dict(paths(spec)).get(_p)
            if isinstance(_f, _cc.Field) and isinstance(_f.env, str) and _f.env:
                wanted.setdefault(_f.env, []).append(("yes" if kind_ == "Bool" else CMD_VALUE[kind_][0]) if (kind_ in CMD_VALUE or kind_ == "Bool") else None)
        for name, vals in wanted.items():
            if len(vals) == 1 and vals[0] is not None:      # (two fields that derive the same name are left alone)
                os.environ[name] = vals[0]
                env_set.append(name)
    try:
        return _check_schema_body(ctx, spec, only, bottom_up, schema, ref_paths, fpb, bad)
    finally:
        for name in env_set:
            os.environ.pop(name, None)


def _check_schema_body(ctx, spec, only, bottom_up, schema, ref_paths, fpb, bad):
    import cincoconfig as cc
    # ---- naming routes --------------------------------------------------------------------
    try:
        enum = cc.get_all_fields(schema)
    except Exception as exc:  # noqa
        bad("enumeration-raises", "get_all_fields raised %r" % (exc,))
        return
    got_paths = [p for p, _, _ in enum]
    if got_paths != [p for p, _ in ref_paths]:
        bad("enumeration", "get_all_fields paths %s, expected %s" % (got_paths, [p for p, _ in ref_paths]))
        return
    cfg = schema()
    for (path, owner, field), (_, kind) in zip(enum, ref_paths):
        depth = path.count(".") + 1
        tag = "%s@%d" % (kind, depth)
        ctx.transitions += 1
        ctx.case((str(spec), path), "naming:" + tag, depth > 1)
        try:
            if schema[path] is not field:
                bad("schema-getitem|" + tag, "schema[%r] is not the enumerated field" % path)
            if owner._get_field(path.rsplit(".", 1)[-1]) is not field:
                bad("owner|" + tag, "the schema reported for %r does not own the field" % path)
            if field._ref_path != path or cc.item_ref_path(field) != path:
                bad("ref-path|" + tag, "field reference path %r / %r for enumerated path %r" % (field._ref_path, cc.item_ref_path(field), path))
            if (path in cfg) is not True:
                bad("contains|" + tag, "%r in cfg is False" % path)
            a, b = cfg[path], chained(cfg, path)
            if kind == "Schema":
                if a is not b or not isinstance(a, cc.Config):
                    bad("config-getitem|" + tag, "cfg[%r] is not the sub-configuration reached by attribute access" % path)
                if cc.item_ref_path(a) != path:
                    bad("config-ref-path|" + tag, "sub-configuration at %r reports path %r" % (path, cc.item_ref_path(a)))
            else:
                if V.canon(a) != V.canon(b):
                    bad("config-getitem|" + tag, "cfg[%r]=%r but attribute access gives %r" % (path, a, b))
                if kind != "Bool":
                    c2 = schema()
                    val = ASSIGN[kind]
                    c2[path] = val
                    if V.plain(chained(c2, path)) != V.plain(val):
                        bad("setitem|" + tag, "cfg[%r]=%r is read back as %r" % (path, val, chained(c2, path)))
                    others = [(p, v) for p, v in snapshot(c2, spec) if p != path]
                    if others != [(p, v) for p, v in snapshot(schema(), spec) if p != path]:
                        bad("setitem-other|" + tag, "cfg[%r]=... changed another field" % path)
        except Exception as exc:  # noqa
            bad("naming-raises|" + tag, "naming route for %r raised %r" % (path, exc))
    absent = ["zz", "zz.a"]
    for p in got_paths:
        absent.append(p + ".zz")
        absent.append(p.rsplit(".", 1)[0] + ".zz" if "." in p else "zz")
        absent.append(p + ".zz.a")
    for missing in sorted(set(absent)):
        try:
            if missing in cfg and missing not in got_paths:
                bad("contains-missing", "%r in cfg is True" % missing)
        except Exception as exc:  # noqa
            bad("contains-raises", "%r in cfg raised %r" % (missing, exc))
    # ---- parser ----------------------------------------------------------------------------
    try:
        parser = cc.generate_argparse_parser(schema, add_help=False, prog="app")
    except Exception as exc:  # noqa
        bad("parser-raises", "generate_argparse_parser raised %r" % (exc,))
        return
    want_opts = {}
    for p, kind in ref_paths:
        base = "--" + p.replace(".", "-").replace("_", "-").lower()
        if kind in CMD_VALUE:
            want_opts[base] = (p, "value")
        elif kind == "Bool":
            want_opts[base] = (p, "on")
            want_opts["--no-" + base[2:]] = (p, "off")
    got_opts = {}
    for act in parser._actions:
        for o in act.option_strings:
            got_opts.setdefault(o, []).append(act.dest)
    if sorted(got_opts) != sorted(want_opts) or any(len(v) != 1 for v in got_opts.values()):
        bad("parser-options", "parser offers %s, expected %s" % (sorted(got_opts), sorted(want_opts)))
        return
    for o, (p, _) in want_opts.items():
        if got_opts[o] != [p]:
            bad("parser-dest", "option %s has destination %r, expected %r" % (o, got_opts[o], p))
            return
    # ---- command lines ---------------------------------------------------------------------
    scalars = [(p, k) for p, k in ref_paths if k in CMD_VALUE or k == "Bool"]
    choices = []
    for p, k in scalars:
        base = "--" + p.replace(".", "-").replace("_", "-").lower()
        if k == "Bool":
            choices.append([None, (p, [base], True), (p, ["--no-" + base[2:]], False)])
        else:
            choices.append([None, (p, [base, CMD_VALUE[k][0]], CMD_VALUE[k][1])])
    for state in ("default", "assigned", "reloaded"):
        if state == "reloaded" and not any(k == "Schema" for _, k in ref_paths):
            continue
        for combo in itertools.product(*choices):
            supplied = [c for c in combo if c is not None]
            argv = [x for c in supplied for x in c[1]]
            dests = [c[0] for c in supplied]
            ignores = [None] + [list(s) for r in range(1, len(dests) + 1) for s in itertools.combinations(dests, r)]
            if len(dests) >= 1:
                ignores.append(dests[0])  # a single name given as a string
            ignores.append(["unrelated"])
            for ign in ignores:
                if only is not None and only != [state, argv, ign]:
                    continue
                cfg = schema()
                if state in ("assigned", "reloaded"):
                    for p, k in ref_paths:
                        if k in ASSIGN and ASSIGN[k] is not None:
                            cfg[p] = ASSIGN[k]
                        elif k == "Bool":
                            cfg[p] = not chained(cfg, p)
                if state == "reloaded":
                    # every nested section is replaced by a new configuration object after dotted paths were used
                    cfg.load_tree(cfg.to_tree())
                    for p, k in ref_paths:
                        if k != "Schema" and V.canon(cfg[p]) != V.canon(chained(cfg, p)):
                            bad("config-getitem-after-reload|%s" % k, "after the sections were replaced by a load, cfg[%r]=%r but attribute access gives %r" % (p, cfg[p], chained(cfg, p)),
                                [state, argv, ign])
                before = dict(snapshot(cfg, spec))
                err = io.StringIO()
                ctx.transitions += 1
                ns_before = None
                try:
                    with contextlib.redirect_stderr(err):
                        ns = parser.parse_args(argv)
                    ns_before = dict(vars(ns))
                    cc.cmdline_args_override(cfg, ns, ign)
                except BaseException as exc:  # noqa  (argparse exits with SystemExit)
                    ctx.case((str(spec), state, tuple(argv), str(ign)), "cmdline:raises", True)
                    bad("cmdline-raises", "state %s argv %s ignore %s raised %r %s" % (state, argv, ign, exc, err.getvalue()[-100:]), [state, argv, ign])
                    continue
                if ns_before is not None and dict(vars(ns)) != ns_before:
                    bad("namespace-changed", "state %s argv %s ignore %s: applying the parsed arguments changed them (%s)" % (
                        state, argv, ign, sorted(set(ns_before) ^ set(vars(ns)))), [state, argv, ign])
                ignset = set([ign] if isinstance(ign, str) else (ign or []))
                expect = dict(before)
                for p, _, val in supplied:
                    if p not in ignset:
                        expect[p] = V.canon(val)
                after = dict(snapshot(cfg, spec))
                ctx.case((str(spec), state, tuple(argv), str(ign)), "cmdline:%d-supplied" % min(len(supplied), 3), bool(supplied))
                if after != expect:
                    diffs = [p for p in after if after[p] != expect[p]]
                    p0 = diffs[0]
                    kind = dict(ref_paths)[p0]
                    why = ("not-supplied" if p0 not in dests else ("ignored" if p0 in ignset else "supplied"))
                    bad("override|%s|%s|%s" % (kind, why, "empty-cmdline" if not argv else "nonempty"),
                        "state %s argv %s ignore %s: field %s is %s, expected %s" % (state, argv, ign, p0, after[p0], expect[p0]), [state, argv, ign])
    ctx.traces += 1


def check_growth(ctx, spec):
    """enumerate / generate a parser, then add a field to the deepest existing sub-schema, then enumerate again:
    enumeration, lookup, membership and the parser must all know the new field"""
    import cincoconfig as cc
    nested = [p for p, k in paths(spec) if k == "Schema"]
    if not nested:
        return
    schema = build(spec)
    cc.get_all_fields(schema)
    cc.generate_argparse_parser(schema, add_help=False)
    deepest = max(nested, key=lambda p: p.count("."))
    schema[deepest].late = cc.IntField(default=1)
    new_path = deepest + ".late"
    ctx.transitions += 1
    case = {"spec": spec, "job": "schema", "growth": True}
    got = [p for p, _, _ in cc.get_all_fields(schema)]
    ok = new_path in got
    ctx.case((str(spec), "growth"), "growth:%s" % ("ok" if ok else "stale"), True)
    if not ok:
        ctx.violation("C16|growth|enumeration", "schema %s: after adding %s, field enumeration still reports %s" % (spec, new_path, got), case)
        return
    parser = cc.generate_argparse_parser(schema, add_help=False, prog="app")
    opt = "--" + new_path.replace(".", "-").replace("_", "-")
    if opt not in [o for a in parser._actions for o in a.option_strings]:
        ctx.violation("C16|growth|parser", "schema %s: after adding %s the generated parser has no %s" % (spec, new_path, opt), case)
        return
    cfg = schema()
    if new_path not in cfg or cfg[new_path] != 1:
        ctx.violation("C16|growth|config", "schema %s: a configuration built after adding %s does not have it" % (spec, new_path), case)
    ns = parser.parse_args([opt, "5"])
    cc.cmdline_args_override(cfg, ns)
    if cfg[new_path] != 5:
        ctx.violation("C16|growth|override", "schema %s: %s 5 was not applied to %s" % (spec, opt, new_path), case)
