"""
C14 - environment variables beat files, assignment beats both, names are predictable.

Full matrix: schema-level env setting {absent, True, named prefix, False} for the root, a nested and a
nested-nested schema (built top-down) x field-level setting {absent, True, named, False} x field depth
1-3 x field kind x {declared default, none} x state of the expected variable {unset, empty, valid,
invalid} with *decoy* variables on every other plausible name, on the real os.environ; every history of
length <= 2 over {load_tree, loads(json), assign}.  A reference resolver computes the bound variable
name from the documented rules; a twin world without any variable gives the differential oracle for
"unset / empty / opted out behaves as if no binding existed".
"""
import itertools
import json
import os

from mc import values as V

PROP = "C14"
LEVEL = "model_checking"
RULE = ("full product schema settings x field setting x depth x kind x default x variable state x histories (<= 2 ops); "
        "non-trivial = a binding exists or a decoy variable is set (always); distinct = distinct (settings, depth, kind, "
        "default, variable state, history)")
ASSUMPTIONS = ["naming is not judged for a field with env=True when no enclosing schema has a prefix, nor below a nested Schema(env=True) "
               "under a named prefix (the documentation does not determine them); precedence is still judged with the name the field reports",
               "variable names carry the token CCV7 so that the real process environment cannot collide"]

SCHEMA_SET = ["absent", "true", "named", "false"]
FIELD_SET = ["absent", "true", "named", "false"]
KEYS = ["ccv7s_", "ccv7d"]         # nested schema keys (one ends in an underscore: names are joined with "_" whatever the parts end in)
FKEY = "ccv7f"
PREFIX = {0: "CCV7app", 1: "CCV7p1x_", 2: "CCV7P2"}        # named prefixes are used as written (mixed case included)
FNAMED = "CCV7Named_f"          # an explicitly given name is used as written (lower-case letters included)

KINDS = {
    "str": {"mk": lambda cc, **kw: cc.StringField(choices=["alpha", "beta", "gamma", "delta"], **kw), "valid": ("beta", "beta"), "invalid": "zeta",
            "decoy": "gamma", "file": "alpha", "file2": "delta", "assign": "delta", "default": "alpha"},
    "int": {"mk": lambda cc, **kw: cc.IntField(min=0, max=9, **kw), "valid": ("5", 5), "falsy": ("0", 0), "invalid": "50", "decoy": "7", "file": 3, "file2": 4, "assign": 8, "default": 1},
    "bool": {"mk": lambda cc, **kw: cc.BoolField(**kw), "valid": ("yes", True), "invalid": "maybe", "decoy": "on", "file": False, "file2": False, "assign": False, "default": False},
    "bool-t": {"mk": lambda cc, **kw: cc.BoolField(**kw), "valid": ("on", True), "falsy": ("no", False), "invalid": "maybe", "decoy": "yes", "file": True, "file2": True, "assign": True, "default": True},
    "lookup": {"mk": lambda cc, **kw: cc.StringField(validator=lambda cfg, v: {"alpha": "alpha", "beta": "beta", "gamma": "gamma", "delta": "delta"}[v], **kw),
               "valid": ("beta", "beta"), "invalid": "zeta", "decoy": "gamma", "file": "alpha", "file2": "delta", "assign": "delta", "default": "alpha"},
    # the variable is validated like an assigned value: for a bytes field its text *is* the value (no on-disk decoding)
    "bytes": {"mk": lambda cc, **kw: cc.BytesField(**kw), "valid": ("aGVsbG8=", b"aGVsbG8="), "invalid": None, "decoy": "ZGVjb3k=", "file": "ZmlsZQ==", "file2": "ZmlsZTI=",
              "assign": b"assigned", "default": b"dflt"},
    "bytes-hex": {"mk": lambda cc, **kw: cc.BytesField("hex", **kw), "valid": ("6869", b"6869"), "invalid": None, "decoy": "00", "file": "66696c65", "file2": "66696c6532",
                  "assign": b"assigned", "default": b"dflt"},
    # free text: the variable's text is the value, blanks included (a blanks-only variable is a non-empty variable)
    "text": {"mk": lambda cc, **kw: cc.StringField(**kw), "valid": ("  padded text\t", "  padded text\t"), "falsy": (" ", " "), "invalid": None, "decoy": "decoy text", "file": "from file",
             "file2": "from file 2", "assign": "assigned text", "default": "dflt text"},
    "float": {"mk": lambda cc, **kw: cc.FloatField(**kw), "valid": ("2.5", 2.5), "falsy": ("0.0", 0.0), "invalid": "x", "decoy": "7.5", "file": 3.5, "file2": 4.5, "assign": 8.5, "default": 1.5},
}
CONTAINER_KINDS = {
    "list": {"mk": lambda cc, **kw: cc.ListField(cc.IntField(), **kw), "valid": ("[5]", None), "invalid": "x", "decoy": "y", "file": [3], "file2": [4], "assign": [8], "default": [1]},
    "dict": {"mk": lambda cc, **kw: cc.DictField(cc.StringField(), cc.IntField(), **kw), "valid": ("{}", None), "invalid": "x", "decoy": "y", "file": {"a": 3}, "file2": {"a": 4}, "assign": {"a": 8}, "default": {"a": 1}},
    "challenge": {"mk": lambda cc, **kw: cc.ChallengeField("md5", **kw), "valid": ("envsecret", "envsecret"), "invalid": None, "decoy": "decoysecret", "file": "filesecret", "file2": "file2", "assign": "assigned", "default": "dfl"},
}


def envarg(setting, level):
    return {"absent": None, "true": True, "named": PREFIX[level] if level is not None else FNAMED, "false": False}[setting]


STYLE = ["attr"]        # how the schema of the current job is put together (set by run_job)
DISPLAY = "CCV7 Shown Name"


def build(cc, ssets, fset, depth, kind, with_default):
    """top-down construction; returns (root schema, field)
    styles: 'attr' (explicit nested Schema objects assigned by attribute), 'auto' (nested levels created on first
    attribute access), 'item' (the field is stored with one dotted item path), 'named-field' ('attr' with a display name)"""
    k = dict(KINDS, **CONTAINER_KINDS)[kind]
    style = STYLE[0]
    root = cc.Schema(env=envarg(ssets[0], 0))
    kw = {"env": {"absent": None, "true": True, "named": FNAMED, "false": False}[fset]}
    if with_default:
        kw["default"] = k["default"]
    if style == "named-field":
        kw["name"] = DISPLAY
    if style == "keyed":
        kw["key"] = FKEY            # the key is also handed to the constructor (the documented idiom)
    field = k["mk"](cc, **kw)
    if style == "late":
        # the field joins its schema after the schema has built a configuration and served a document load
        cur = root
        for lvl in range(1, depth):
            sub = cc.Schema(env=envarg(ssets[lvl], lvl))
            setattr(cur, KEYS[lvl - 1], sub)
            cur = sub
        root.witness = cc.IntField(default=1, env=False)
        saved = {n: os.environ.pop(n) for n in list(os.environ) if "CCV7" in n}
        try:
            early = root()
            doc = {"witness": 2}
            node = doc
            for k in KEYS[: depth - 1]:
                node[k] = {}
                node = node[k]
            early.loads(json.dumps(doc), "json")
        finally:
            os.environ.update(saved)
        setattr(cur, FKEY, field)
        return root, field
    if style == "item":
        root[".".join(KEYS[: depth - 1] + [FKEY])] = field
    else:
        cur = root
        for lvl in range(1, depth):
            if style == "auto":
                cur = getattr(cur, KEYS[lvl - 1])
            else:
                sub = cc.Schema(env=envarg(ssets[lvl], lvl), **({"key": KEYS[lvl - 1]} if style == "keyed" else {}))
                setattr(cur, KEYS[lvl - 1], sub)
                cur = sub
        setattr(cur, FKEY, field)
    root.witness = cc.IntField(default=1, env=False)
    return root, field


def ref_name(ssets, fset, depth):
    """-> (name or None, determined?)  from the documented rules"""
    prefix = None          # None = no prefix in effect
    determined = True
    for lvl in range(depth):
        s = ssets[lvl]
        key = None if lvl == 0 else KEYS[lvl - 1].upper()
        if s == "false":
            prefix = None
            disabled = True
        elif s == "named":
            prefix = PREFIX[lvl]
        elif s == "true":
            if lvl == 0:
                prefix = ""
            else:
                if prefix not in (None, ""):
                    determined = False      # nested Schema(env=True) below a named prefix
                prefix = ""
        else:  # absent: inherit
            if lvl > 0 and prefix is not None:
                prefix = (prefix + "_" if prefix else "") + key
    F = FKEY.upper()
    if fset == "false":
        return None, True
    if fset == "named":
        return FNAMED, True
    if prefix is None:
        if fset == "true":
            return None, False     # env=True with no enclosing prefix: undetermined
        return None, True
    return (prefix + "_" if prefix else "") + F, determined


def plausible_names(depth):
    F = FKEY.upper()
    parts = [PREFIX[0], PREFIX[1], PREFIX[2], KEYS[0].upper(), KEYS[1].upper()]
    names = {F, FNAMED, FNAMED.upper(), FNAMED.lower(), "_" + F, FKEY, DISPLAY.upper(), DISPLAY, DISPLAY.upper().replace(" ", "_")}
    for pre in (PREFIX[0], PREFIX[0] + "_" + KEYS[0].upper(), PREFIX[1]):
        names.add(pre + "_" + DISPLAY.upper())
        names.add(pre + "_" + DISPLAY.upper().replace(" ", "_"))
    # the upper-cased spellings of the mixed-case prefixes, in the positions a derived name can have
    K0, K1 = KEYS[0].upper(), KEYS[1].upper()
    for pre in (PREFIX[0].upper(), PREFIX[1].upper()):
        for mid in ("", "_" + K0, "_" + K0 + "_" + K1, "_" + K1):
            names.add(pre + mid + "_" + F)
    names.add(PREFIX[0].upper() + "_" + PREFIX[1].upper() + "_" + F)
    names.add((PREFIX[0] + "_" + K0 + "_" + F).upper())
    for r in range(1, 4):
        for combo in itertools.permutations(parts, r):
            names.add("_".join(combo) + "_" + F)
            names.add("_".join(combo) + F)
            names.add("_".join(combo).lower() + "_" + FKEY)
    return names


def path_of(depth):
    return ".".join(KEYS[: depth - 1] + [FKEY])


def chained(cfg, depth):
    obj = cfg
    for k in KEYS[: depth - 1]:
        obj = getattr(obj, k)
    return obj


def tree_for(depth, value):
    t = {FKEY: value}
    for k in reversed(KEYS[: depth - 1]):
        t = {k: t}
    return t


OPS = ["load_tree", "loads", "assign", "load_tree2"]


def histories():
    hs = [[]]
    for a in OPS:
        hs.append([a])
    for a in OPS:
        for b in OPS:
            hs.append([a, b])
    # a document that names the key with an explicit null
    hs += [["load_null"], ["loads_null"], ["load_null", "assign"], ["assign", "load_null"], ["load_tree", "loads_null"]]
    # the explicit assignment arrives through the command-line override helper and is a falsy value (False, 0, 0.0) where the kind has one
    hs += [["assign0"], ["load_tree", "assign0"]]
    return hs


def bounds(tier):
    return {"schema_settings": SCHEMA_SET, "field_settings": FIELD_SET, "depths": [1, 2, 3], "kinds": list(KINDS) + (list(CONTAINER_KINDS)),
            "variable_states": ["unset", "empty", "valid", "valid-but-falsy", "invalid"], "histories": len(histories())}


def jobs(tier):
    out = []
    for depth in (1, 2, 3):
        for ssets in itertools.product(SCHEMA_SET, repeat=depth):
            kinds = list(KINDS)
            if tier != "thorough":      # quick: every kind at depth 1, all but the bytes kinds at depth 2, three kinds at depth 3
                kinds = list(KINDS) if depth == 1 else ([k for k in KINDS if not k.startswith("bytes")] if depth == 2 else ["int", "str", "bool-t"])
            out.append({"name": "d%d/%s" % (depth, "-".join(ssets)), "depth": depth, "ssets": list(ssets), "kinds": kinds, "tier": tier})
    few = ["int", "str"] if tier != "thorough" else list(KINDS)
    for depth in (2, 3):
        for root in SCHEMA_SET:
            ssets = [root] + ["absent"] * (depth - 1)
            for style in ("auto", "item"):
                out.append({"name": "%s/d%d/%s" % (style, depth, "-".join(ssets)), "depth": depth, "ssets": ssets, "kinds": few, "tier": tier, "style": style})
    for depth in (1, 2, 3):
        for root in SCHEMA_SET:
            ssets = [root] + ["absent"] * (depth - 1)
            out.append({"name": "late/d%d/%s" % (depth, "-".join(ssets)), "depth": depth, "ssets": ssets, "kinds": few, "tier": tier, "style": "late"})
    for depth in (1, 2):
        for ssets in itertools.product(SCHEMA_SET, repeat=depth):
            out.append({"name": "keyed/d%d/%s" % (depth, "-".join(ssets)), "depth": depth, "ssets": list(ssets), "kinds": few[:1], "tier": tier, "style": "keyed"})
    for depth in (1, 2):
        for ssets in itertools.product(SCHEMA_SET, repeat=depth):
            out.append({"name": "named-field/d%d/%s" % (depth, "-".join(ssets)), "depth": depth, "ssets": list(ssets), "kinds": few, "tier": tier, "style": "named-field"})
    out.append({"name": "containers", "depth": 0, "containers": True, "tier": tier})
    return out


def run_job(job, ctx):
    import cincoconfig as cc
    single = job.get("single")
    if single:
        job = dict(single["jobparams_full"]); job["only"] = single["only"]
    if job.get("containers"):
        _containers(job, ctx)
        return
    only = job.get("only")
    depth, ssets = job["depth"], job["ssets"]
    STYLE[0] = job.get("style", "attr")
    for fset in FIELD_SET:
        for kind in job["kinds"]:
            for with_default in (False, True):
                for var in ("unset", "empty", "valid", "falsy", "invalid"):
                    if var == "falsy" and "falsy" not in KINDS[kind]:
                        continue
                    if var == "invalid" and KINDS[kind].get("invalid") is None:
                        continue
                    if only is not None and only[:4] != [fset, kind, with_default, var]:
                        continue
                    _world(ctx, job, cc, depth, ssets, fset, kind, with_default, var, only[4] if only else None)
    ctx.states += 1
    ctx.sample({"depth": depth, "schema_settings": ssets, "field_settings": FIELD_SET, "kinds": job["kinds"]})


def _case(job, only):
    return {"jobparams_full": {k: v for k, v in job.items() if k not in ("single", "only")}, "only": only, "job": job["name"]}


def _setenv(env):
    for k in list(os.environ):
        if "CCV7" in k:
            del os.environ[k]
    os.environ.update(env)


def _assign0(k):
    return k["falsy"][1] if "falsy" in k else k["assign"]


def _run_history(cc, cfg, depth, k, hist):
    for op in hist:
        if op == "load_tree":
            cfg.load_tree(tree_for(depth, k["file"]))
        elif op == "load_tree2":
            cfg.load_tree(tree_for(depth, k["file2"]))
        elif op == "loads":
            cfg.loads(json.dumps(tree_for(depth, k["file"])), "json")
        elif op == "assign":
            setattr(chained(cfg, depth), FKEY, k["assign"])
        elif op == "assign0":
            import argparse
            cc.cmdline_args_override(cfg, argparse.Namespace(**{path_of(depth): _assign0(k)}))
        elif op == "load_null":
            cfg.load_tree(tree_for(depth, None))
        elif op == "loads_null":
            cfg.loads(json.dumps(tree_for(depth, None)), "json")


def _world(ctx, job, cc, depth, ssets, fset, kind, with_default, var, only_hist):
    k = KINDS[kind]
    want_name, determined = ref_name(ssets, fset, depth)
    # what the library reports (used only where the rules leave the name open)
    _setenv({})
    schema0, field0 = build(cc, ssets, fset, depth, kind, with_default)
    reported = field0.env if isinstance(field0.env, str) and field0.env else None
    fpb = "C14|%sd%d|%s|field=%s|%s|" % ("" if STYLE[0] == "attr" else STYLE[0] + "|", depth, "-".join(ssets), fset, kind)
    key = [fset, kind, with_default, var]

    def bad(what, msg, hist=None):
        ctx.violation(fpb + what, "schemas %s field %s depth %d kind %s default=%s variable %s: %s" % (ssets, fset, depth, kind, with_default, var, msg),
                      _case(job, key + [hist]), size=len(hist or []))
    if determined:
        if reported != want_name:
            ctx.case((tuple(ssets), fset, depth, kind, with_default, var, "name"), "name:mismatch", True)
            bad("name", "the field is bound to %r, the documented rules give %r" % (reported, want_name))
            return
        name = want_name
    else:
        name = reported
    # environment: the bound variable in the requested state, decoys everywhere else
    env = {n: k["decoy"] for n in plausible_names(depth) if n != name}
    if name is not None:
        if var == "empty":
            env[name] = ""
        elif var == "valid":
            env[name] = k["valid"][0]
        elif var == "falsy":
            env[name] = k["falsy"][0]
        elif var == "invalid":
            env[name] = k["invalid"]
    elif var != "unset":
        return   # no binding: the variable states coincide
    bound_active = name is not None and var in ("valid", "falsy", "invalid")
    vv = k["falsy"] if var == "falsy" else k["valid"]
    for hist in histories():
        if only_hist is not None and hist != only_hist:
            continue
        if job.get("style") and job.get("tier") != "thorough" and len(hist) > 1 and only_hist is None:
            continue        # quick: the construction-style variants run the histories of at most one operation
        ctx.transitions += 1
        _setenv(env)
        schema, field = build(cc, ssets, fset, depth, kind, with_default)
        try:
            cfg = schema()
            built = None
        except Exception as exc:  # noqa
            built = exc
        label = "%s:%s" % ("bound-" + var if name else "unbound", "built" if built is None else type(built).__name__)
        ctx.case((tuple(ssets), fset, depth, kind, with_default, var, tuple(hist)), label, True)
        if bound_active and var == "invalid":
            if built is None:
                bad("invalid-variable-accepted", "%s=%r is invalid but construction succeeded (value %r)" % (name, env[name], getattr(chained(cfg, depth), FKEY)), hist)
            elif not isinstance(built, cc.ValidationError):
                bad("invalid-variable-wrong-exception", "construction raised %s, not a ValidationError" % type(built).__name__, hist)
            elif built.ref_path != path_of(depth):
                bad("invalid-variable-path", "the error names %r, the field is %r" % (built.ref_path, path_of(depth)), hist)
            _setenv({})
            break   # nothing to run a history on
        if built is not None:
            bad("construction-raises", "construction raised %r" % (built,), hist)
            _setenv({})
            break
        try:
            _run_history(cc, cfg, depth, k, hist)
        except Exception as exc:  # noqa
            bad("history-raises", "history %s raised %r" % (hist, exc), hist)
            continue
        got = getattr(chained(cfg, depth), FKEY)
        if bound_active:
            # last op an assignment -> the assigned value; an assignment followed by loads -> the assigned value or
            # (when the load rebuilt the enclosing sub-configuration) the variable again; never the file's value
            if hist and hist[-1] == "assign0":
                wants = [_assign0(k)]
            elif hist and hist[-1] == "assign":
                wants = [k["assign"]]
            elif "assign" in hist:
                wants = [k["assign"], vv[1]]
            else:
                wants = [vv[1]]
            want = wants[0]
            if V.canon(got) not in [V.canon(x) for x in wants]:
                what = "file-overrides-variable" if V.canon(got) in (V.canon(k["file"]), V.canon(k["file2"])) else \
                    ("variable-not-applied" if not hist else "wrong-value")
                bad(what, "after %s the field is %r, expected %r (variable %s=%r)" % (hist, got, want, name, env.get(name)), hist)
        else:
            # differential: same schema and history in a world with no variable at all
            _setenv({})
            schema2, _ = build(cc, ssets, fset, depth, kind, with_default)
            cfg2 = schema2()
            _run_history(cc, cfg2, depth, k, hist)
            want = getattr(chained(cfg2, depth), FKEY)
            if V.canon(got) != V.canon(want) or cfg.witness != 1:
                bad("unbound-differs", "after %s the field is %r; without any variable it is %r" % (hist, got, want), hist)
    _setenv({})
    # the same schema object builds a second configuration after the environment changed: the second one must
    # reflect the environment at *its* construction (nothing about the variable may be remembered by the schema)
    if name is not None and var in ("valid", "unset", "invalid") and (only_hist is None or only_hist == ["rebuild"]):
        states = {"unset": None, "valid": k["valid"][0], "other": k["decoy"], "invalid": k["invalid"]}
        for first, second in (("unset", "valid"), ("valid", "unset"), ("valid", "other"), ("invalid", "valid"), ("valid", "invalid"), ("unset", "invalid")):
            if first != var and second != var:
                continue
            if k["invalid"] is None and "invalid" in (first, second):
                continue
            schema, field = build(cc, ssets, fset, depth, kind, with_default)
            results = []
            for st in (first, second):
                env2 = {n: k["decoy"] for n in plausible_names(depth) if n != name}
                if states[st] is not None:
                    env2[name] = states[st]
                _setenv(env2)
                try:
                    c = schema()
                    results.append(("ok", getattr(chained(c, depth), FKEY)))
                except Exception as exc:  # noqa
                    results.append(("raise", exc))
            _setenv({})
            ctx.transitions += 1
            got = results[1]
            dflt = k["default"] if with_default else None
            if second == "invalid":
                okk = got[0] == "raise"
                want_txt = "construction fails"
            elif second == "unset":
                okk = got[0] == "ok" and V.canon(got[1]) == V.canon(dflt)
                want_txt = "the default %r" % (dflt,)
            else:
                wantv = k["valid"][1] if second == "valid" else KINDS[kind].get("decoy_value")
                if second == "other":
                    # the decoy text validated by the same field
                    try:
                        wantv = field.validate(schema(), k["decoy"]) if False else _validated(cc, kind, k["decoy"])
                    except Exception:  # noqa
                        continue
                okk = got[0] == "ok" and V.canon(got[1]) == V.canon(wantv)
                want_txt = "%r" % (wantv,)
            ctx.case((tuple(ssets), fset, depth, kind, with_default, "rebuild", first, second), "rebuild:%s->%s:%s" % (first, second, "ok" if okk else "bad"), True)
            if not okk:
                bad("schema-remembers-environment|%s->%s" % (first, second),
                    "a configuration built with the variable %s, then a second one from the same schema with the variable %s: the second gives %r, expected %s"
                    % (first, second, got[1], want_txt), ["rebuild"])
    ctx.traces += 1


def _validated(cc, kind, text):
    f = KINDS[kind]["mk"](cc)
    s = cc.Schema()
    s.f = f
    return f.validate(s(), text)


def _last_assign_wins(hist):
    # the value is the assigned one iff an assignment happened (later loads are skipped while the variable is set)
    return "assign" in hist


def _containers(job, ctx):
    """list / dict / challenge fields bound to a variable (root schema env=True or named field)"""
    import cincoconfig as cc
    only = job.get("only")
    for kind, k in CONTAINER_KINDS.items():
        for fset, sset in (("absent", "true"), ("named", "absent"), ("true", "named")):
            for with_default in (False, True):
                for var in ("unset", "valid", "invalid"):
                    if k[var if var != "unset" else "valid"] is None and var != "unset":
                        continue
                    for hist in ([], ["load_tree"], ["assign"], ["load_tree", "assign"], ["assign", "load_tree"]):
                        if only is not None and only != [kind, fset, sset, with_default, var, hist]:
                            continue
                        want_name, _ = ref_name([sset], fset, 1)
                        env = {n: k["decoy"] for n in plausible_names(1) if n != want_name}
                        if var == "valid":
                            env[want_name] = k["valid"][0]
                        elif var == "invalid":
                            env[want_name] = k["invalid"]
                        _setenv(env)
                        ctx.transitions += 1
                        schema, field = build(cc, [sset], fset, 1, kind, with_default)
                        fp = "C14|container|%s|field=%s|schema=%s|default=%s|" % (kind, fset, sset, with_default)
                        case = _case(job, [kind, fset, sset, with_default, var, hist])
                        try:
                            cfg = schema()
                            built = None
                        except Exception as exc:  # noqa
                            built = exc
                        ctx.case((kind, fset, sset, with_default, var, tuple(hist)), "container:%s:%s" % (var, "built" if built is None else type(built).__name__), True)
                        if var == "unset":
                            _setenv({})
                            s2, _ = build(cc, [sset], fset, 1, kind, with_default)
                            c2 = s2()
                            try:
                                _run_history(cc, cfg, 1, k, hist); _run_history(cc, c2, 1, k, hist)
                            except Exception as exc:  # noqa
                                ctx.violation(fp + "history-raises", "history %s raised %r" % (hist, exc), case)
                                continue
                            a, b = getattr(cfg, FKEY), getattr(c2, FKEY)
                            if kind == "challenge":
                                same = (a is None) == (b is None)
                            else:
                                same = V.plain(a) == V.plain(b)
                            if not same:
                                ctx.violation(fp + "unbound-differs", "with decoys only, after %s the field is %r; without variables %r" % (hist, a, b), case)
                            continue
                        if var == "invalid" or (var == "valid" and kind in ("list", "dict")):
                            # a string can never be a valid list/dict: the variable is invalid -> construction must fail
                            if built is None:
                                ctx.violation(fp + "invalid-variable-accepted", "%s=%r cannot be a valid %s, yet construction succeeded and the field is %r"
                                              % (want_name, env[want_name], kind, getattr(cfg, FKEY)), case, size=len(hist))
                            elif not isinstance(built, cc.ValidationError):
                                ctx.violation(fp + "invalid-variable-wrong-exception", "construction raised %s" % type(built).__name__, case)
                            _setenv({})
                            continue
                        if built is not None:
                            ctx.violation(fp + "construction-raises", "construction raised %r" % (built,), case)
                            continue
                        try:
                            _run_history(cc, cfg, 1, k, hist)
                        except Exception as exc:  # noqa
                            ctx.violation(fp + "history-raises", "history %s raised %r" % (hist, exc), case)
                            continue
                        got = getattr(cfg, FKEY)
                        secret = k["assign"] if "assign" in hist else k["valid"][1]
                        try:
                            got.challenge(secret)
                        except Exception:  # noqa
                            ctx.violation(fp + "variable-not-applied" if "assign" not in hist else fp + "wrong-value",
                                          "after %s the challenge field does not verify %r (variable %s=%r)" % (hist, secret, want_name, env[want_name]), case, size=len(hist))
    _setenv({})
    ctx.states += 1
    ctx.traces += 1
