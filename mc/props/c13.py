"""
C13 - configurations of one schema share no state and never alter the schema.

Two-configuration worlds: B0 is built first, A is built second and driven through every operation
history up to the depth bound (assignments, loads, resets, in-place list/dict mutation of defaults and
of assigned values, mutation of list-item configurations, dynamic fields, assigning B0's *typed*
containers to A), then B1 is built.  After every transition: B0's snapshot is what it was, B1's equals
that of a configuration built in a pristine world, and a deep snapshot of the schema (field set, every
field's options and declared default, item schemas and config types) has not moved.
"""
from mc import cfgworld as W
from mc import values as V

PROP = "C13"
LEVEL = "model_checking"
RULE = ("BFS over operation histories on configuration A per (shape, leaf kind), with B0 built before and B1 after; "
        "non-trivial = the operation changed A; distinct = distinct (shape, leaf, state of A, operation)")
ASSUMPTIONS = ["aliasing the user creates by handing one mutable object to two untyped fields is not judged; objects nested inside an untyped value travel by reference through to_tree()", "salted digests are compared up to their salt"]


def bounds(tier):
    leaves = ["list-int", "list-int-cd", "dict-typed", "dict-typed-cd", "list-str-req", "list-any-dflt", "dict-any-dflt", "dict-any-empty-dflt", "dict-typed-empty-dflt", "list-any-empty-dflt", "list-int-empty-dflt", "int09", "challenge-dflt", "any", "str-norm", "dict-of-lists", "list-of-lists", "file-in-homedir", "list-anyfield-dflt", "list-anyfield-empty-dflt", "secure-aes"]
    if tier == "thorough":
        leaves = list(W.catalogue())
    return {"shapes": ["flat", "nested", "cfglist", "reuse", "dynamic"], "leaves": leaves, "depth": 3 if tier == "thorough" else 2}


def jobs(tier):
    b = bounds(tier)
    deep = set(bounds("quick")["leaves"])        # thorough: depth 3 for the quick tier's leaves, depth 2 for the rest of the catalogue
    out = [{"name": "%s/%s" % (sh, leaf), "shape": sh, "leaf": leaf, "depth": b["depth"] if tier != "thorough" or leaf in deep else 2, "tier": tier}
           for sh in b["shapes"] for leaf in b["leaves"]]
    for sh in ("nested+late", "cfglist+late", "nested+env"):
        for leaf in ["list-int", "dict-typed", "list-int-cd", "dict-any-dflt", "dict-of-lists"]:
            # quick: the many-valued leaves one operation deep in the nested variants (two deep in the plain shapes above)
            depth = 1 if tier != "thorough" and sh.startswith("nested") and leaf in ("list-int", "dict-typed", "list-int-cd") else b["depth"]
            out.append({"name": "%s/%s" % (sh, leaf), "shape": sh, "leaf": leaf, "depth": depth, "tier": tier})
    for fmt in (LOAD_FORMATS if tier == "thorough" else LOAD_FORMATS[:3]):
        out.append({"name": "loaded/%s" % fmt, "kind": "loaded", "fmt": fmt})
    out.append({"name": "tree-transfer", "kind": "transfer"})
    out.append({"name": "methods-and-item-defaults", "kind": "extras"})
    out.append({"name": "transient-env", "kind": "transient"})
    out.append({"name": "old-config-late-field", "kind": "oldlate"})
    return out


def extra_ops(spec, leaf):
    """assign the sibling's typed containers to A; mutate configurations held in A's lists"""
    lspec = W.catalogue()[leaf][0]
    ops = [["render", "json"], ["render", "xml"]]
    typed = (lspec["k"] == "List" and lspec.get("item") and lspec["item"].get("k") != "Any") or (lspec["k"] == "Dict" and (lspec.get("key") or lspec.get("val")))
    # (a list whose item field is an AnyField is an untyped list: handing B0's list object to A is aliasing the user creates)
    if typed:
        for p, f in W.leaf_paths(spec):
            if f == lspec and "[" not in p:
                ops.append(["from-sibling", p])
    nested = (lspec["k"] == "Dict" and (lspec.get("val") or {}).get("k") == "List") or (lspec["k"] == "List" and (lspec.get("item") or {}).get("k") == "List")
    if nested:
        # merge B0's container into A's through every merging mutator, then mutate one level further down
        for p, f in W.leaf_paths(spec):
            if f == lspec and "[" not in p:
                theirs = {"$": "sibling-value", "path": p}
                if lspec["k"] == "Dict":
                    ops += [["mut", p, "update", theirs], ["mut", p, "ior", theirs], ["mutin", p, "d", "append", 7], ["mutin", p, "d", "setitem", 0, 8]]
                else:
                    ops += [["mut", p, "extend", theirs], ["mut", p, "iadd", theirs], ["mut", p, "setslice", [0, 0, None], theirs],
                            ["mutin", p, 0, "append", 7], ["mutin", p, -1, "setitem", 0, 8]]
    return ops


class Monitor:
    def __init__(self, shape, leaf, tier):
        self.shape, self.leaf, self.tier = shape, leaf, tier
        self.spec = W.shape(shape, leaf)
        pristine = W.Built(self.spec)
        self.pristine = W.snapshot(pristine.schema(), abstract=True)
        self.pristine_schema = W.schema_snap(pristine.schema)

    def case(self, hist, op):
        return {"shape": self.shape, "leaf": self.leaf, "hist": hist, "op": op, "tier": self.tier, "job": "%s/%s" % (self.shape, self.leaf)}

    def ctor_failed(self, ctx, spec, init, exc):
        ctx.case((self.shape, self.leaf, "init", repr(init)), "ctor:rejected", True)

    def bad(self, ctx, what, msg, hist, op):
        from mc.props.c01 import _opkey
        ctx.violation("C13|%s|%s|%s|%s" % (self.shape, self.leaf, what, _opkey(op) if op else "init"), msg, self.case(hist, op), size=len(hist))

    def judge(self, ctx, w, hist, op):
        b0 = W.snapshot(w.sibling, abstract=True)
        if b0 != self.pristine:
            self.bad(ctx, "sibling-changed", "after %s on A, the configuration B0 built earlier changed at %s"
                     % (hist + ([op] if op else []), W.diff_paths(self.pristine, b0)), hist, op)
        for p, f in W.leaf_paths(self.spec):
            if f["k"] in ("List", "Dict") and "[" not in p:
                try:
                    owner = W.chained(w.sibling, p.rsplit(".", 1)[0]) if "." in p else w.sibling
                    val = getattr(owner, p.rsplit(".", 1)[-1])
                except Exception:  # noqa
                    continue
                bound = getattr(val, "cfg", owner)
                if bound is not owner:
                    self.bad(ctx, "sibling-value-rebound", "after %s on A, B0's typed value at %s is bound to another configuration"
                             % (hist + ([op] if op else []), p), hist, op)
        try:
            b1 = W.snapshot(w.built.schema(), abstract=True)
        except Exception as exc:  # noqa
            self.bad(ctx, "later-build-raises", "after %s on A, building another configuration raised %r" % (hist + [op], exc), hist, op)
            return
        if b1 != self.pristine:
            self.bad(ctx, "later-config-differs", "after %s on A, a configuration built afterwards differs from a pristine one at %s"
                     % (hist + ([op] if op else []), W.diff_paths(self.pristine, b1)), hist, op)
        ss = W.schema_snap(w.built.schema)
        if ss != self.pristine_schema:
            diff = [a[0] for a, b in zip(ss, self.pristine_schema) if a != b] or ["(field set)"]
            self.bad(ctx, "schema-changed", "after %s on A, the schema changed at %s" % (hist + ([op] if op else []), diff[:4]), hist, op)

    def state(self, ctx, w, hist):
        if len(hist) == 1:
            self.judge(ctx, w, hist, None)

    def step(self, ctx, before, before_ids, op, outcome, w, hist):
        after = W.snapshot(w.cfg)
        ctx.case((self.shape, self.leaf, repr(before), repr(op)), "%s:%s" % (op[0], "ok" if outcome[0] == "ok" else "rejected"), after != before)
        self.judge(ctx, w, hist, op)


LOAD_FORMATS = ["json", "yaml", "pickle", "bson", "xml"]


def _loaded_pairs(job, ctx):
    """two (then three) configurations of one schema are *loaded* from the same unchanged documents - directly and through
    an include file - and then one of them is mutated in place at every untyped / typed container position"""
    import copy
    import os
    import cincoconfig as cc
    fmt = job["fmt"]
    only = job.get("only")
    tree = {"ul": [1, [2, 3], {"k": [4]}], "ud": {"a": {"b": [5]}, "l": [6]}, "any": {"x": [7]}, "tl": [1, 2], "td": {"k": 1},
            "sub": {"ul": [[8]], "any": [9, [10]]}}
    if fmt == "xml":
        tree = {"ul": [1, [2, 3]], "ud": {"a": {"b": [5]}, "l": [6]}, "any": {"x": [7]}, "tl": [1, 2], "td": {"k": 1}, "sub": {"ul": [[8]], "any": [9, [10]]}}
    mutations = [
        ("ul-append", lambda c: c.ul.append("m")), ("ul-inner", lambda c: c.ul[1].append("m")), ("ud-inner", lambda c: c.ud["a"]["b"].append("m")),
        ("ud-new", lambda c: c.ud.__setitem__("new", 1)), ("any-inner", lambda c: c.any["x"].append("m")), ("tl-append", lambda c: c.tl.append(9)),
        ("td-set", lambda c: c.td.__setitem__("n", 2)), ("sub-ul-inner", lambda c: c.sub.ul[0].append("m")), ("sub-any-inner", lambda c: c.sub.any[1].append("m")),
        ("dyn-inner", lambda c: c.extra["e"].append("m")),
    ]
    for via in ("direct", "include", "include-nested"):
        for mname, mutate in mutations:
            ident = [via, mname]
            if only is not None and only != ident:
                continue
            s = cc.Schema(dynamic=True)
            s.ul = cc.ListField(); s.ud = cc.DictField(); s.any = cc.AnyField()
            s.tl = cc.ListField(cc.IntField()); s.td = cc.DictField(cc.StringField(), cc.IntField())
            s.sub.ul = cc.ListField(); s.sub.any = cc.AnyField()
            s.include = cc.IncludeField(startdir=ctx.tmp)
            s.sub.inc = cc.IncludeField(startdir=ctx.tmp)
            full = dict(copy.deepcopy(tree), extra={"e": [11]})
            f = cc.ConfigFormat.get(fmt)
            if via == "direct":
                main = full
            elif via == "include":
                with open(os.path.join(ctx.tmp, "inc.cfg"), "wb") as fh:
                    fh.write(f.dumps(None, full))
                main = {"include": "inc.cfg"}
            else:
                with open(os.path.join(ctx.tmp, "incsub.cfg"), "wb") as fh:
                    fh.write(f.dumps(None, full["sub"]))
                main = dict({k: v for k, v in full.items() if k != "sub"}, sub={"inc": "incsub.cfg"})
            mainpath = os.path.join(ctx.tmp, "main.cfg")
            with open(mainpath, "wb") as fh:
                fh.write(f.dumps(None, main))
            case = {"kind": "loaded", "jobparams_full": {k: v for k, v in job.items() if k not in ("single", "only")}, "only": ident, "job": job["name"]}
            try:
                a, b = s(), s()
                a.load(mainpath, fmt)
                b.load(mainpath, fmt)
                before_b = V.canon(cc.asdict(b))
                pristine = V.canon(cc.asdict(a))
                mutate(a)
                c = s()
                c.load(mainpath, fmt)
            except Exception as exc:  # noqa
                ctx.case(("loaded", fmt, via, mname), "loaded:raises", False)
                ctx.violation("C13|loaded|%s|%s|raises" % (via, mname), "loading two configurations from one document (%s, %s) raised %r" % (fmt, via, exc), case)
                continue
            ctx.transitions += 1
            ctx.case(("loaded", fmt, via, mname), "loaded:%s:%s" % (via, mname), True)
            if V.canon(cc.asdict(b)) != before_b:
                ctx.violation("C13|loaded|%s|%s|other-changed" % (via, mname),
                              "A and B were loaded from the same %s document (%s); after %s on A, B reads %s" % (fmt, via, mname, V.show(cc.asdict(b), 160)), case)
            if V.canon(cc.asdict(c)) != pristine:
                ctx.violation("C13|loaded|%s|%s|later-load-polluted" % (via, mname),
                              "a configuration loaded from the unchanged %s document (%s) after %s on A reads %s" % (fmt, via, mname, V.show(cc.asdict(c), 160)), case)
    ctx.sample({"loaded_pairs": fmt, "mutations": [m[0] for m in mutations]})


def _methods_and_item_defaults(job, ctx):
    """(a) instance methods act on the configuration they are called through, whichever configuration of the schema was built
    or used first; (b) a list of configurations whose declared default is a list of maps: building, mutating and resetting
    configurations leaves that declared default (and trees handed to load_tree) as they were"""
    import copy
    import cincoconfig as cc
    only = job.get("only")
    case0 = {"kind": "extras", "jobparams_full": {k: v for k, v in job.items() if k not in ("single", "only")}, "job": job["name"]}

    def bad(ident, what, msg):
        ctx.violation("C13|%s" % what, msg, dict(case0, only=ident))
    # ---- (a)
    for where in ("root", "sub", "item", "ctype-item"):
        for first_use in ("none", "call-on-earlier", "render-earlier"):
            ident = ["methods", where, first_use]
            if only is not None and only != ident:
                continue
            node = cc.Schema()
            node.n = cc.IntField(default=0)
            node.tags = cc.ListField(cc.StringField())
            cc.instance_method(node, "bump")(lambda cfg, by=1: setattr(cfg, "n", cfg.n + by) or cfg.n)
            cc.instance_method(node, "who")(lambda cfg: id(cfg))
            cc.instance_method(node, "tag")(lambda cfg, t: (cfg.tags.append(t) if cfg.tags is not None else setattr(cfg, "tags", [t])))
            s = cc.Schema()
            if where == "root":
                s = node
            elif where == "sub":
                s.sub = node
            elif where == "item":
                s.items = cc.ListField(node)
            else:
                T = cc.make_type(node, "NodeT")
                s.items = cc.ListField(T)
                s.more = cc.ListField(T)

            def get(c, j=0):
                if where == "root":
                    return c
                if where == "sub":
                    return c.sub
                return c.items[j]

            def mk():
                c = s()
                if where in ("item", "ctype-item"):
                    c.items = [{"n": 0}, {"n": 0}]
                    if where == "ctype-item":
                        c.more = [{"n": 0}]
                return c
            ctx.transitions += 1
            try:
                early = mk()
                if first_use == "call-on-earlier":
                    get(early).bump()
                    get(early).who()
                elif first_use == "render-earlier":
                    early.to_tree()
                a, b = mk(), mk()
                n_early = get(early).n
                r = get(b).bump(5)
                get(b).tag("x")
                facts = {"b.n": get(b).n, "a.n": get(a).n, "early.n": get(early).n, "ret": r, "who-b": get(b).who() == id(get(b)), "who-a": get(a).who() == id(get(a)),
                         "b.tags": list(get(b).tags or []), "a.tags": list(get(a).tags or [])}
                if where in ("item", "ctype-item"):
                    get(b, 1).bump(2)
                    facts["b.items[1].n"] = get(b, 1).n
                    facts["b.items[0].n"] = get(b, 0).n
                want = {"b.n": 5, "a.n": 0, "early.n": n_early, "ret": 5, "who-b": True, "who-a": True, "b.tags": ["x"], "a.tags": []}
                if where in ("item", "ctype-item"):
                    want.update({"b.items[1].n": 2, "b.items[0].n": 5})
            except Exception as exc:  # noqa
                ctx.case(tuple(ident), "methods:raises", True)
                bad(ident, "methods|%s|raises" % where, "instance methods on configurations of one schema (%s, %s) raised %r" % (where, first_use, exc))
                continue
            ctx.case(tuple(ident), "methods:%s:%s" % (where, first_use), True)
            if facts != want:
                diff = {k: (facts[k], want[k]) for k in want if facts[k] != want[k]}
                bad(ident, "methods|%s|acts-on-other-configuration" % where,
                    "three configurations of one schema (%s, first use: %s); calling the methods through the third gave (got, expected) %s" % (where, first_use, diff))
    # ---- (b)
    for variant in ("bytes-in-item", "typed-list-in-item", "same-tree-twice"):
        ident = ["item-defaults", variant]
        if only is not None and only != ident:
            continue
        item = cc.Schema()
        item.c = cc.IntField()
        item.tok = cc.BytesField(encoding="hex")
        item.tags = cc.ListField(cc.IntField())
        declared = [{"c": 1, "tok": "dead", "tags": [1, 2]}, {"c": 2}]
        s = cc.Schema()
        s.nodes = cc.ListField(item, default=copy.deepcopy(declared))
        s.plain = cc.IntField(default=1)
        ctx.transitions += 1
        try:
            first = s()
            second = s()
            snap_first = V.canon(cc.asdict(first))
            second.nodes[0].tags.append(9)
            second.nodes[0].c = 7
            third = s()
            cc.reset_value(second, "nodes")
            tree = {"nodes": [{"c": 5, "tok": "beef", "tags": [3]}], "plain": 2}
            tree0 = copy.deepcopy(tree)
            x, y = s(), s()
            x.load_tree(tree)
            y.load_tree(tree)
            x.nodes[0].c = 6
            x.nodes[0].tags.append(4)
        except Exception as exc:  # noqa
            ctx.case(tuple(ident), "item-defaults:raises", True)
            bad(ident, "item-defaults|raises", "building / mutating configurations whose list of configurations has a declared default raised %r" % (exc,))
            continue
        ctx.case(tuple(ident), "item-defaults:%s" % variant, True)
        if V.canon(s._fields["nodes"]._default) != V.canon(declared):
            bad(ident, "item-defaults|declared-default-changed", "the declared default of the list field is now %s" % V.show(s._fields["nodes"]._default, 120))
        if V.canon(cc.asdict(first)) != snap_first:
            bad(ident, "item-defaults|other-changed", "mutating the second configuration changed the first")
        if V.canon(cc.asdict(third)) != snap_first or V.canon(cc.asdict(second)) != snap_first:
            bad(ident, "item-defaults|later-or-reset-polluted", "a configuration built later (or the reset one) differs from a fresh one: %s" % V.show(cc.asdict(third), 120))
        if V.canon(tree) != V.canon(tree0):
            bad(ident, "item-defaults|input-tree-mutated", "load_tree changed the tree it was given: %s" % V.show(tree, 120))
        if y.nodes[0].c != 5 or list(y.nodes[0].tags) != [3]:
            bad(ident, "item-defaults|tree-loaded-twice-shared", "one tree loaded into two configurations: an assignment through one shows in the other (%r, %r)" % (y.nodes[0].c, list(y.nodes[0].tags)))
    ctx.sample({"extras": ["instance methods", "defaults of lists of configurations"]})


def _tree_transfer(job, ctx):
    """values travel from A to B as a Python tree (`b.load_tree(a.to_tree())`, `schema(**a.to_tree())`); afterwards an in-place
    mutation of a container *value itself* (not of objects nested inside an untyped value) on either side must not show
    on the other"""
    import cincoconfig as cc
    only = job.get("only")
    muts = [("ul", lambda c: c.ul.append("m")), ("ud", lambda c: c.ud.__setitem__("new", 1)), ("sub.ul", lambda c: c.sub.ul.append("m")),
            ("dl[k]", lambda c: c.dl["k"].append("m")), ("tl", lambda c: c.tl.append(9)), ("td", lambda c: c.td.__setitem__("n", 2)),
            ("ll[0]", lambda c: c.ll[0].append("m"))]
    for route in ("load_tree", "ctor", "load_tree-virtual", "asdict-load_tree", "asdict-ctor"):
        for side in ("receiver", "sender"):
            for mname, mutate in muts:
                ident = [route, side, mname]
                if only is not None and only != ident:
                    continue
                if route.startswith("asdict") and mname == "dl[k]":
                    continue        # asdict() keeps dict values as they are: an untyped list inside a dict value travels by reference
                s = cc.Schema()
                s.ul = cc.ListField(); s.ud = cc.DictField(); s.tl = cc.ListField(cc.IntField()); s.td = cc.DictField(cc.StringField(), cc.IntField())
                s.dl = cc.DictField(cc.StringField(), cc.ListField()); s.ll = cc.ListField(cc.ListField())
                s.sub.ul = cc.ListField()
                a = s()
                a.ul = [1, 2]; a.ud = {"a": 1}; a.tl = [1]; a.td = {"k": 1}; a.dl = {"k": [1]}; a.ll = [[1], [2]]; a.sub.ul = [3]
                case = {"kind": "transfer", "jobparams_full": {k: v for k, v in job.items() if k not in ("single", "only")}, "only": ident, "job": job["name"]}
                try:
                    tree = a.to_tree(virtual=True) if route.endswith("virtual") else (cc.asdict(a) if route.startswith("asdict") else a.to_tree())
                    if route.endswith("ctor"):
                        b = s(**tree)
                    else:
                        b = s()
                        b.load_tree(tree)
                    before_a, before_b = V.canon(cc.asdict(a)), V.canon(cc.asdict(b))
                    mutate(b if side == "receiver" else a)
                except Exception as exc:  # noqa
                    ctx.case(("transfer",) + tuple(ident), "transfer:raises", False)
                    ctx.violation("C13|transfer|%s|%s|raises" % (route, mname), "transferring values as a tree raised %r" % (exc,), case)
                    continue
                ctx.transitions += 1
                ctx.case(("transfer",) + tuple(ident), "transfer:%s:%s" % (route, side), True)
                other_now = V.canon(cc.asdict(a if side == "receiver" else b))
                if other_now != (before_a if side == "receiver" else before_b):
                    ctx.violation("C13|transfer|%s|%s|%s-changed" % (route, mname, "sender" if side == "receiver" else "receiver"),
                                  "B received A's values through %s; mutating %s on the %s changed the other configuration" % (route, mname, side), case)
    ctx.sample({"tree_transfer": [m[0] for m in muts]})


def _transient_env(job, ctx):
    """bound environment variables that are set only while ONE configuration is built / reset: the value they supply
    belongs to that configuration; the schema (declared defaults included), configurations built earlier and
    configurations built after the variables are gone are as if the variables had never existed"""
    import os
    import cincoconfig as cc
    only = job.get("only")
    KINDS = {"int": (lambda **kw: cc.IntField(default=1, **kw), "42", 42, 1),
             "str": (lambda **kw: cc.StringField(default="dflt", **kw), "from-env", "from-env", "dflt"),
             "bool": (lambda **kw: cc.BoolField(default=False, **kw), "yes", True, False),
             "nodefault": (lambda **kw: cc.IntField(**kw), "7", 7, None),
             "callable": (lambda **kw: cc.IntField(default=lambda: 3, **kw), "8", 8, 3)}
    for kind, (mk, raw, envval, dflt) in KINDS.items():
        for binding in ("prefix", "named"):
            for during in ("build", "reset", "build+reset"):
                ident = [kind, binding, during]
                if only is not None and only != ident:
                    continue
                for k in [k for k in os.environ if k.startswith("C13T")]:
                    del os.environ[k]
                s = cc.Schema(env="C13T") if binding == "prefix" else cc.Schema()
                paths = ("f", "sub.f", "sub.deep.f")
                for p in paths:
                    s[p] = mk(**({"env": "C13TN_" + p.replace(".", "_").upper()} if binding == "named" else {}))
                item = cc.Schema()
                item.f = mk(env="C13TI_F")
                s.items = cc.ListField(item)
                names = [s._fields["f"].env, s.sub._fields["f"].env, s.sub.deep._fields["f"].env, "C13TI_F"]
                pristine = W.schema_snap(s)
                before = s()
                before.items = [{}]
                case = {"kind": "transient", "jobparams_full": {k: v for k, v in job.items() if k not in ("single", "only")}, "only": ident, "job": job["name"]}
                fp = "C13|transient-env|%s|%s|%s|" % (kind, binding, during)
                ctx.transitions += 1
                for n in names:
                    os.environ[n] = raw
                try:
                    a = s() if "build" in during else before
                    if "reset" in during:
                        a.f = envval if kind != "bool" else False
                        cc.reset_value(a, "f")
                        cc.reset_value(a.sub, "f")
                        cc.reset_value(a.sub.deep, "f")
                    a.items = [{}]
                    got_a = [a.f, a.sub.f, a.sub.deep.f, a.items[0].f]
                finally:
                    for n in names:
                        os.environ.pop(n, None)
                ctx.case(("transient", kind, binding, during), "transient:%s" % during, True)
                if got_a != [envval] * 4:
                    ctx.violation(fp + "variable-not-applied", "with the variables set, the configuration reads %r (expected %r everywhere)" % (got_a, envval), case)
                if W.schema_snap(s) != pristine:
                    diff = [x[0] for x, y in zip(W.schema_snap(s), pristine) if x != y]
                    ctx.violation(fp + "schema-changed", "after a configuration was %s under set variables the schema changed at %s" % (during, diff[:4]), case)
                later = s()
                later.items = [{}]
                got_l = [later.f, later.sub.f, later.sub.deep.f, later.items[0].f]
                if got_l != [dflt] * 4:
                    ctx.violation(fp + "later-config-differs", "a configuration built after the variables were removed reads %r, the declared default is %r" % (got_l, dflt), case)
                if during == "build":
                    before.f = envval if kind != "bool" else True
                    cc.reset_value(before, "f")
                    cc.reset_value(before.sub.deep, "f")
                    if [before.f, before.sub.deep.f] != [dflt, dflt]:
                        ctx.violation(fp + "earlier-config-reset-differs", "resetting fields of a configuration built earlier gives %r, the declared default is %r" % ([before.f, before.sub.deep.f], dflt), case)
    ctx.states += 1
    ctx.traces += 1


def _old_config_late_field(job, ctx):
    """a configuration built *before* a field with a mutable default joined the schema: whatever reading that field through the
    old object gives (an error is fine), mutating what it gives in place changes neither the schema's declared default nor any
    other configuration, built before or after"""
    import cincoconfig as cc
    only = job.get("only")
    kinds = {"typed-list": lambda: cc.ListField(cc.IntField(), default=[1]), "untyped-list": lambda: cc.ListField(default=[1, [2]]),
             "typed-dict": lambda: cc.DictField(cc.StringField(), cc.IntField(), default={"k": 1}), "untyped-dict": lambda: cc.DictField(default={"k": [1]}),
             "factory-list": lambda: cc.ListField(cc.IntField(), default=lambda: [1])}
    for kind, mk in kinds.items():
        for where in ("root", "sub"):
            ident = [kind, where]
            if only is not None and only != ident:
                continue
            s = cc.Schema()
            s.w = cc.IntField(default=1)
            s.sub.w = cc.IntField(default=1)
            old, old2 = s(), s()
            target = s if where == "root" else s.sub
            target.late = mk()
            pristine = W.schema_snap(s)
            first = s()
            want = V.canon((first if where == "root" else first.sub).late)
            case = {"kind": "oldlate", "jobparams_full": {k: v for k, v in job.items() if k not in ("single", "only")}, "only": ident, "job": job["name"]}
            fp = "C13|old-config-late-field|%s|%s|" % (kind, where)
            ctx.transitions += 1
            holder = old if where == "root" else old.sub
            try:
                value = holder.late
            except Exception:  # noqa
                value = None
            ctx.case(("oldlate", kind, where), "oldlate:%s" % type(value).__name__, True)
            try:
                if isinstance(value, list):
                    value.append(99)
                    if value and isinstance(value[1] if len(value) > 1 else None, list):
                        value[1].append(98)
                elif isinstance(value, dict):
                    value["added"] = 99
            except Exception:  # noqa
                pass
            later = s()
            for name, cfg in (("a configuration built afterwards", later), ("another old configuration", old2), ("the first configuration built after the field was added", first)):
                h = cfg if where == "root" else cfg.sub
                try:
                    got = V.canon(h.late)
                except Exception:  # noqa
                    continue       # (an old configuration may not know the field at all)
                if got != want:
                    ctx.violation(fp + "shared", "after an in-place change of what the old configuration returned for the late field, %s reads %s" % (name, V.show(h.late, 60)), case)
            if W.schema_snap(s) != pristine:
                ctx.violation(fp + "schema-changed", "the in-place change reached the schema's declared default", case)
    ctx.states += 1
    ctx.traces += 1


def run_job(job, ctx):
    single = job.get("single")
    if single and single.get("kind") == "oldlate":
        j = dict(single["jobparams_full"]); j["only"] = single["only"]
        return _old_config_late_field(j, ctx)
    if job.get("kind") == "oldlate":
        return _old_config_late_field(job, ctx)
    if single and single.get("kind") == "transient":
        j = dict(single["jobparams_full"]); j["only"] = single["only"]
        return _transient_env(j, ctx)
    if job.get("kind") == "transient":
        return _transient_env(job, ctx)
    if single and single.get("kind") == "extras":
        j = dict(single["jobparams_full"]); j["only"] = single["only"]
        return _methods_and_item_defaults(j, ctx)
    if job.get("kind") == "extras":
        return _methods_and_item_defaults(job, ctx)
    if single and single.get("kind") == "transfer":
        j = dict(single["jobparams_full"]); j["only"] = single["only"]
        return _tree_transfer(j, ctx)
    if job.get("kind") == "transfer":
        return _tree_transfer(job, ctx)
    if single and single.get("kind") == "loaded":
        j = dict(single["jobparams_full"]); j["only"] = single["only"]
        return _loaded_pairs(j, ctx)
    if job.get("kind") == "loaded":
        return _loaded_pairs(job, ctx)
    if single:
        m = Monitor(single["shape"], single["leaf"], single.get("tier", "quick"))
        W.explore(ctx, m.spec, single["leaf"], 0, m, only=(single["hist"], single["op"]), sibling=True)
        return
    m = Monitor(job["shape"], job["leaf"], job["tier"])
    n, nops = W.explore(ctx, m.spec, job["leaf"], job["depth"], m, tier=job["tier"], sibling=True, max_states=3000,
                        extra_ops=extra_ops(m.spec, job["leaf"]), drop=("nv", "selfset", "augset"))   # routes that reach no state the others do not reach
    ctx.sample({"shape": job["shape"], "leaf": job["leaf"], "states_of_A": n, "operations_per_state": nops})
