"""
C02 - saving and re-loading a configuration reproduces it exactly, in every format.

The C01-style BFS over operation histories runs on shapes built from the *persistent* leaf kinds
(plain scalars, precise floats, tricky strings, bytes, salted digests, encrypted secrets, typed lists and
dicts of them, lists of configurations, config types, dynamic fields) with a virtual field and an
instance method added to every schema.  At every newly reached state that passes validate() the
configuration is dumped in every (format, options) row, loaded into a fresh configuration of the same
schema and key file, compared, dumped again from the re-loaded object (second generation), and saved /
loaded through real files.
"""
import os

from mc import cfgworld as W
from mc import core
from mc import values as V
from mc.props import c04
from mc.ref import fields as R

PROP = "C02"
LEVEL = "model_checking"
RULE = ("BFS over operation histories per (shape, leaf kind, key-file placement); every new valid state x every format row x "
        "{bytes round trip, second generation, file round trip}; non-trivial = the state differs from the default "
        "construction; distinct = distinct (shape, leaf, state, row)")
ASSUMPTIONS = ["values outside a format's declared domain (XML characters / names, 64-bit integers for BSON) are skipped and counted",
               "an unset typed list/dict may come back empty and an empty secret comes back unset (stated normalisations)"]

ROWS = [("json", {}), ("json", {"pretty": False}), ("yaml", {}), ("yaml", {"root_key": "cfg"}), ("xml", {}), ("xml", {"root_tag": "app"}),
        ("bson", {}), ("pickle", {})]
QUICK_ROWS = [("json", {}), ("yaml", {"root_key": "cfg"}), ("xml", {}), ("bson", {}), ("pickle", {})]


def leaves(tier):
    base = ["str-tricky", "float-precise", "int-big", "bytes", "bytes-hex", "challenge", "secure-aes", "secure-xor", "list-bytes",
            "list-challenge", "list-secure", "dict-bytes", "dict-secure", "list-int", "dict-typed", "list-any", "dict-any", "any", "bool",
            "list-list", "int09", "list-str-req", "dict-byteskey", "bool-t", "int-dflt-nonzero", "str-dflt", "str-norm"]
    if tier == "thorough":
        base += ["secure-best", "dict-challenge", "str-norm", "net", "host", "port", "loglevel", "appmode", "url", "ipv4", "float", "challenge-dflt",
                 "list-int-cd", "dict-any-dflt", "list-any-dflt", "str-regex-req", "int-req", "file"]
    return base


def bounds(tier):
    return {"shapes": W.SHAPES, "leaves": leaves(tier), "depth": 2, "rows": [r[0] + str(sorted(r[1].items())) for r in (ROWS if tier == "thorough" else QUICK_ROWS)],
            "keyfile": ["default", "own"]}


def jobs(tier):
    b = bounds(tier)
    out = []
    for sh in b["shapes"]:
        for leaf in b["leaves"]:
            kfs = ["own", "default"] if W.catalogue()[leaf][0]["k"] == "Secure" or "secure" in leaf else ["own"]
            for kf in kfs:
                out.append({"name": "%s/%s/%s" % (sh, leaf, kf), "shape": sh, "leaf": leaf, "depth": b["depth"], "tier": tier, "keyfile": kf})
    return out


def with_virtuals(spec):
    s = dict(spec)
    s["fields"] = list(spec["fields"]) + [["v", {"k": "Virtual"}], ["m", {"k": "Method"}]]
    return s


def extra_ops(spec, leaf):
    lspec = W.catalogue()[leaf][0]
    ops = []
    for p, f in W.leaf_paths(spec):
        if f == lspec and not f.get("o", {}).get("required") and "[" not in p:
            ops.append(["set", p, None])       # None assigned over a (possibly non-None) default
    return ops


def norm_equal(a, b, fspec=None):
    """asdict equality modulo the stated normalisations"""
    return V.plain(a) == V.plain(b)


def compare(orig, back, spec, pre=""):
    """-> list of paths where the re-loaded asdict differs from the original"""
    out = []
    fields = dict(spec["fields"])
    for key in list(orig) + [k for k in back if k not in orig]:
        path = pre + key
        if key not in back:
            out.append((path, "missing after reload"))
            continue
        if key not in orig:
            out.append((path, "appeared after reload"))
            continue
        a, b = orig[key], back[key]
        f = fields.get(key)
        if f is not None and f["k"] in ("Schema", "CType") and isinstance(a, dict) and isinstance(b, dict):
            out += compare(a, b, f, path + ".")
            continue
        if f is not None and f["k"] == "List" and isinstance(f.get("item"), dict) and f["item"]["k"] in ("Schema", "CType"):
            if a is None and b in (None, []):
                continue
            if not isinstance(a, list) or not isinstance(b, list) or len(a) != len(b):
                out.append((path, "%s != %s" % (V.show(a, 40), V.show(b, 40))))
                continue
            for i, (x, y) in enumerate(zip(a, b)):
                out += compare(x, y, f["item"], "%s[%d]." % (path, i))
            continue
        if V.plain(a) == V.plain(b):
            continue
        typed_container = f is not None and ((f["k"] == "List" and f.get("item")) or (f["k"] == "Dict" and (f.get("key") or f.get("val"))))
        if typed_container and a is None and b is not None and len(b) == 0:
            continue       # an unset typed list/dict may come back empty
        if f is not None and f["k"] == "Secure" and a == "" and b is None:
            continue       # an empty secret comes back unset
        if f is not None and f["k"] in ("List", "Dict") and _empty_secret_items(f, a, b):
            continue
        out.append((path, "%s != %s" % (V.show(a, 50), V.show(b, 50))))
    return out


def _empty_secret_items(f, a, b):
    return False


class Monitor:
    def __init__(self, shape, leaf, tier, keyfile, tmp):
        self.shape, self.leaf, self.tier, self.keyfile, self.tmp = shape, leaf, tier, keyfile, tmp
        self.spec = with_virtuals(W.shape(shape, leaf))
        self.rows = ROWS if tier == "thorough" else QUICK_ROWS
        self.keypath = os.path.join(tmp, "own.key")
        self.built = W.Built(self.spec)
        self.done = set()

    def case(self, hist, op):
        return {"shape": self.shape, "leaf": self.leaf, "hist": hist, "op": op, "tier": self.tier, "keyfile": self.keyfile,
                "job": "%s/%s/%s" % (self.shape, self.leaf, self.keyfile)}

    def ctor_failed(self, ctx, spec, init, exc):
        pass

    def step(self, ctx, before, before_ids, op, outcome, w, hist):
        pass

    def fresh(self):
        cfg = self.built.schema()
        if self.keyfile == "own":
            cfg._key_filename = self.keypath
        return cfg

    def state(self, ctx, w, hist):
        import cincoconfig as cc
        cfg = w.cfg
        if self.keyfile == "own":
            cfg._key_filename = self.keypath
        try:
            cfg.validate()
        except Exception:  # noqa
            ctx.case((self.shape, self.leaf, repr(hist)), "state:invalid-skipped", False)
            return
        # states that differ only in user-defined marks serialise identically: one round trip per value state
        vkey = repr(_values_only(W.snapshot(cfg, abstract=True)))
        if vkey in self.done:
            ctx.case((self.shape, self.leaf, repr(hist)), "state:same-values-as-earlier", False)
            return
        self.done.add(vkey)
        hcase = (hist[:-1], hist[-1]) if len(hist) > 1 else (hist, None)
        from mc.props.c01 import _opkey

        def bad(what, msg):
            ctx.violation("C02|%s|%s|%s" % (self.shape, self.leaf, what), "state after %s: %s" % (hist, msg), self.case(*hcase), size=len(hist))
        orig = cc.asdict(cfg)
        # ---- the tree is plain data and has no virtual / method keys unless asked for
        try:
            tree = cfg.to_tree()
            vtree = cfg.to_tree(virtual=True)
        except Exception as exc:  # noqa
            bad("to_tree-raises", "to_tree raised %r" % (exc,))
            return
        if not R.is_plain_data(tree):
            bad("tree-not-plain", "to_tree() is not plain data: %s" % V.show(tree, 120))
        if "v" in tree or "m" in tree:
            bad("virtual-in-tree", "to_tree() contains virtual / instance-method keys: %s" % sorted(tree))
        if "v" not in vtree or vtree.get("v") != 42 or "m" in vtree:
            bad("virtual-tree-wrong", "to_tree(virtual=True) keys %s" % sorted(vtree))
        default_state = len(hist) == 1 and not hist[0][1]
        for fmt, opts in self.rows:
            row = fmt + ("+" + ",".join("%s=%s" % kv for kv in sorted(opts.items())) if opts else "")
            if not c04.representable(tree, fmt):
                ctx.skipped += 1
                continue
            gens = [cfg]
            ok = True
            for gen in (1, 2):
                src = gens[-1]
                ctx.transitions += 1
                try:
                    data = src.dumps(fmt, **opts)
                except Exception as exc:  # noqa
                    bad("dumps-raises|%s|gen%d" % (row, gen), "dumps(%s) of generation %d raised %r" % (row, gen, exc))
                    ok = False
                    break
                dst = self.fresh()
                try:
                    dst.loads(data, fmt, **opts)
                except Exception as exc:  # noqa
                    bad("loads-raises|%s|gen%d" % (row, gen), "loading the %s document back (generation %d) raised %r" % (row, gen, exc))
                    ok = False
                    break
                diffs = compare(orig, cc.asdict(dst), self.spec)
                if diffs:
                    bad("differs|%s|gen%d|%s" % (row, gen, _kind(diffs)), "%s round trip (generation %d) changed %s" % (row, gen, diffs[:3]))
                    ok = False
                    break
                gens.append(dst)
            ctx.case((self.shape, self.leaf, self.keyfile, repr(W.snapshot(cfg, abstract=True)), row), "roundtrip:%s:%s" % (fmt, "ok" if ok else "bad"), not default_state)
            if ok and self.keyfile == "own" and ("secure" in self.leaf) and not opts:
                # the re-loaded configuration is given another key file and saved again: the document must then
                # load with that key file (nothing remembered from the first load may leak into the second save)
                ctx.transitions += 1
                try:
                    src = gens[-1]
                    src._key_filename = self.keypath + ".second"
                    data3 = src.dumps(fmt)
                    dst = self.built.schema()
                    dst._key_filename = self.keypath + ".second"
                    dst.loads(data3, fmt)
                    diffs = compare(orig, cc.asdict(dst), self.spec)
                    if diffs:
                        bad("differs-after-key-change|%s" % row, "after the key file was changed and the configuration saved again, %s reloads differently: %s" % (row, diffs[:3]))
                except Exception as exc:  # noqa
                    bad("raises-after-key-change|%s" % row, "after the key file was changed: %r" % (exc,))
            if not opts and ok:
                # through real files
                path = os.path.join(self.tmp, "saved." + fmt)
                try:
                    cfg.save(path, fmt)
                    dst = self.fresh()
                    dst.load(path, fmt)
                    diffs = compare(orig, cc.asdict(dst), self.spec)
                    if diffs:
                        bad("file-differs|%s" % row, "%s save/load changed %s" % (row, diffs[:3]))
                except Exception as exc:  # noqa
                    bad("file-raises|%s" % row, "save/load through a %s file raised %r" % (row, exc))
                ctx.transitions += 1
        ctx.traces += 1


def _values_only(snap):
    out = []
    for x in snap:
        if x[1] == "cfg":
            out.append((x[0], _values_only(x[2])))
        elif x[1].startswith("cfgs:"):
            out.append((x[0], tuple(_values_only(y) for y in x[2])))
        else:
            out.append((x[0], x[2]))
    return tuple(out)


def _kind(diffs):
    p = diffs[0][0]
    return "item" if "[" in p else ("nested" if "." in p else "root")


def run_job(job, ctx):
    single = job.get("single")
    if single:
        m = Monitor(single["shape"], single["leaf"], single.get("tier", "quick"), single.get("keyfile", "own"), ctx.tmp)
        W.explore(ctx, m.spec, single["leaf"], 0, m, only=(single["hist"], single["op"]))
        return
    m = Monitor(job["shape"], job["leaf"], job["tier"], job["keyfile"], ctx.tmp)
    n, nops = W.explore(ctx, m.spec, job["leaf"], job["depth"], m, tier="quick", max_states=1500 if job["tier"] == "quick" else 6000,
                        extra_ops=extra_ops(m.spec, job["leaf"]))
    ctx.sample({"shape": job["shape"], "leaf": job["leaf"], "keyfile": job["keyfile"], "states": n, "rows": [r[0] for r in m.rows]})
