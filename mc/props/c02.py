"""
C02 - saving and re-loading a configuration reproduces it exactly, in every format.

The C01-style BFS over operation histories runs on shapes built from the *persistent* leaf kinds
(plain scalars, precise floats, tricky strings, bytes, salted digests, encrypted secrets, typed lists and
dicts of them, lists of configurations, config types, dynamic fields) with a virtual field and an
instance method added to every schema.  At every newly reached state that passes validate() the
configuration is dumped in every (format, options) row, loaded into a fresh configuration of the same
schema and key file, compared, dumped again from the re-loaded object (second generation), and saved /
loaded through real files.
"""
import os

from mc import cfgworld as W
from mc import core
from mc import values as V
from mc.props import c04
from mc.ref import fields as R

PROP = "C02"
LEVEL = "model_checking"
RULE = ("BFS over operation histories per (shape, leaf kind, key-file placement); every new valid state x every format row x "
        "{bytes round trip, second generation, file round trip}; non-trivial = the state differs from the default "
        "construction; distinct = distinct (shape, leaf, state, row)")
ASSUMPTIONS = ["values outside a format's declared domain (XML characters / names, 64-bit integers for BSON) are skipped and counted",
               "an unset typed list/dict may come back empty and an empty secret comes back unset (stated normalisations)"]

ROWS = [("json", {}), ("json", {"pretty": False}), ("yaml", {}), ("yaml", {"root_key": "cfg"}), ("xml", {}), ("xml", {"root_tag": "app"}),
        ("bson", {}), ("pickle", {})]
QUICK_ROWS = [("json", {}), ("yaml", {"root_key": "cfg"}), ("xml", {}), ("bson", {}), ("pickle", {})]


def leaves(tier):
    base = ["str-tricky", "float-precise", "int-big", "bytes", "bytes-hex", "challenge", "secure-aes", "secure-xor", "list-bytes",
            "list-challenge", "list-secure", "dict-bytes", "dict-secure", "list-int", "dict-typed", "list-any", "dict-any", "any", "bool",
            "list-list", "int09", "list-str-req", "dict-byteskey", "bool-t", "int-dflt-nonzero", "str-dflt", "str-norm"]
    if tier == "thorough":
        base += ["secure-best", "dict-challenge", "net", "host", "port", "loglevel", "appmode", "url", "ipv4", "float", "challenge-dflt",
                 "list-int-cd", "dict-any-dflt", "list-any-dflt", "str-regex-req", "int-req", "file"]
    return base


def bounds(tier):
    return {"shapes": W.SHAPES, "leaves": leaves(tier), "depth": 2, "rows": [r[0] + str(sorted(r[1].items())) for r in (ROWS if tier == "thorough" else QUICK_ROWS)],
            "keyfile": ["default", "own", "home-relative (~/...)"], "deep": {"item kinds": ["ctype", "schema"], "wrappers": DEEP_WRAPS, "inner lists": "all of [], [A], [A,B] in every outer container of <= 2 entries", "routes": ["objects", "maps"]}}


HEAVY = ("dict-typed", "list-int", "str-tricky", "list-str-req", "list-list")      # many-valued leaves: three positions of them square the state space


def _depth(tier, shape, leaf, depth):
    """quick tier: the nested shapes explore the many-valued leaves one operation deep (two deep in the flat / list shapes)"""
    if tier != "thorough" and shape.startswith("nested") and leaf in HEAVY:
        return 1
    return depth


def jobs(tier):
    b = bounds(tier)
    out = _jobs(tier, b)
    for j in out:
        if "shape" in j:
            j["depth"] = _depth(tier, j["shape"], j["leaf"], j["depth"])
    return out


def _jobs(tier, b):
    out = []
    for sh in b["shapes"]:
        for leaf in b["leaves"]:
            kfs = ["own", "default", "tilde"] if W.catalogue()[leaf][0]["k"] == "Secure" or "secure" in leaf else ["own"]
            if sh == "nested" and len(kfs) > 1:
                kfs = kfs + ["deep"]        # a key file of its own two levels down, none on the level in between
            for kf in kfs:
                out.append({"name": "%s/%s/%s" % (sh, leaf, kf), "shape": sh, "leaf": leaf, "depth": b["depth"], "tier": tier, "keyfile": kf})
    for sh in ("nested+late", "cfglist+late"):
        for leaf in ["int09", "bytes", "secure-aes", "list-bytes", "dict-typed"]:
            out.append({"name": "%s/%s/own" % (sh, leaf), "shape": sh, "leaf": leaf, "depth": b["depth"], "tier": tier, "keyfile": "own"})
    for leaf in ["int09", "secure-aes", "list-int", "dict-typed", "str-norm"]:        # bound variables that exist but are empty
        out.append({"name": "nested+env/%s/own" % leaf, "shape": "nested+env", "leaf": leaf, "depth": b["depth"], "tier": tier, "keyfile": "own"})
    out.append({"name": "with-include", "kind": "include", "tier": tier})
    out.append({"name": "transfer-and-late", "kind": "transfer", "tier": tier})
    return out + deep_jobs(tier)


DEEP_WRAPS = ["list", "dict-list", "list-list", "dict-dict-list", "list-dict-list"]


def deep_jobs(tier):
    return [{"name": "deep/%s/%s" % (kind, wrap), "kind": "deep", "itemkind": kind, "wrap": wrap, "tier": tier}
            for kind in ("ctype", "schema") for wrap in DEEP_WRAPS]


def _deep_schema(itemkind, wrap):
    import cincoconfig as cc
    m = cc.Schema()
    m.name = cc.StringField()
    m.tok = cc.BytesField(encoding="hex")
    m.pw = cc.SecureField(method="xor")
    m.dg = cc.ChallengeField("md5")
    m.v = cc.VirtualField(lambda cfg: 42)
    item = cc.make_type(m, "DeepItem") if itemkind == "ctype" else m
    f = cc.ListField(item)
    if wrap == "dict-list":
        f = cc.DictField(cc.StringField(), f)
    elif wrap == "list-list":
        f = cc.ListField(f)
    elif wrap == "dict-dict-list":
        f = cc.DictField(cc.StringField(), cc.DictField(cc.StringField(), f))
    elif wrap == "list-dict-list":
        f = cc.ListField(cc.DictField(cc.StringField(), f))
    s = cc.Schema()
    s.title = cc.StringField(default="t")
    s.x = f
    return s, item


def _deep_values(wrap):
    """populations: every inner list over {[], [A], [A, B]} in every small outer container"""
    inner = [[], ["A"], ["A", "B"]]
    dl = [{}] + [{"k": a} for a in inner] + [{"k": a, "j": b} for a in inner[1:] for b in inner]
    if wrap == "list":
        return inner
    if wrap == "dict-list":
        return dl
    if wrap == "list-list":
        return [[]] + [[a] for a in inner] + [[a, b] for a in inner for b in inner]
    if wrap == "dict-dict-list":
        return [{}] + [{"o": d} for d in dl] + [{"o": dl[2], "p": dl[3]}]
    if wrap == "list-dict-list":
        return [[]] + [[d] for d in dl] + [[dl[2], dl[5]]]
    raise ValueError(wrap)


ITEMS = {"A": {"name": "ann", "tok": b"\x00\xff", "pw": "s3cret-ZQ", "dg": "pw-A"}, "B": {"name": "bob"}}


def _deep_fill(val, mk):
    if isinstance(val, str):
        return mk(val)
    if isinstance(val, list):
        return [_deep_fill(x, mk) for x in val]
    return {k: _deep_fill(v, mk) for k, v in val.items()}


def _deep_plain(val):
    """configurations at any depth inside containers -> plain comparable data (digests by challenge outcome)"""
    import cincoconfig as cc
    if isinstance(val, cc.Config):
        out = {}
        for k, v in val:
            if type(v).__name__ == "DigestValue":
                out[k] = ("digest", [n for n, it in sorted(ITEMS.items()) if "dg" in it and _chal(v, it["dg"])])
            else:
                out[k] = _deep_plain(v)
        return out
    if isinstance(val, (list, tuple)):
        return [_deep_plain(x) for x in val]
    if isinstance(val, dict):
        return {k: _deep_plain(v) for k, v in val.items()}
    return val


def _chal(dv, secret):
    try:
        dv.challenge(secret)
        return True
    except Exception:  # noqa
        return False


def run_deep(job, ctx):
    import cincoconfig as cc
    itemkind, wrap = job["itemkind"], job["wrap"]
    rows = ROWS if job["tier"] == "thorough" else QUICK_ROWS
    keypath = os.path.join(ctx.tmp, "deep.key")
    single = job.get("only")
    for n, val in enumerate(_deep_values(wrap)):
        for route in ("objects", "maps"):
            if single is not None and [n, route] != single:
                continue
            schema, item = _deep_schema(itemkind, wrap)
            case = {"job": job.get("name") or job.get("job"), "name": job.get("name") or job.get("job"), "kind": "deep", "itemkind": itemkind, "wrap": wrap, "tier": job["tier"], "only": [n, route]}
            fp = "C02|deep|%s|%s|" % (itemkind, wrap)

            def bad(what, msg, case=case, fp=fp, val=val, route=route):
                ctx.violation(fp + what, "x = %s (built from %s): %s" % (V.show(val, 80), route, msg), case)
            cfg = schema()
            cfg._key_filename = keypath
            try:
                if route == "objects":
                    cfg.x = _deep_fill(val, lambda name: item(**ITEMS[name]))
                else:
                    tree_item = lambda name: {k: (v.hex() if isinstance(v, bytes) else v) for k, v in ITEMS[name].items()}  # noqa
                    cfg.load_tree({"x": _deep_fill(val, tree_item)})
                cfg.validate()
            except Exception as exc:  # noqa
                bad("build-raises|" + route, "building the state raised %r" % (exc,))
                continue
            expected = _deep_fill(val, lambda name: dict({"name": None, "tok": None, "pw": None, "dg": None}, **dict(
                ITEMS[name], **({"dg": ("digest", [name])} if "dg" in ITEMS[name] else {}))))
            got0 = _deep_plain(cfg.x)
            if got0 != expected:
                bad("state-wrong|" + route, "the configuration reads %s" % V.show(got0, 120))
                continue
            try:
                tree = cfg.to_tree()
            except Exception as exc:  # noqa
                bad("to_tree-raises", "to_tree raised %r" % (exc,))
                continue
            if not R.is_plain_data(tree):
                bad("tree-not-plain", "to_tree() is not plain data: %s" % V.show(tree, 120))
            if "'v'" in repr(tree):
                bad("virtual-in-tree", "to_tree() contains the virtual field of an item: %s" % V.show(tree, 120))
            for fmt, opts in rows:
                row = fmt + ("+" + ",".join("%s=%s" % kv for kv in sorted(opts.items())) if opts else "")
                ctx.transitions += 1
                ok = True
                src = cfg
                for gen in (1, 2):
                    try:
                        data = src.dumps(fmt, **opts)
                        dst = schema()
                        dst._key_filename = keypath
                        dst.loads(data, fmt, **opts)
                    except Exception as exc:  # noqa
                        bad("raises|%s|gen%d" % (row, gen), "%s round trip (generation %d) raised %r" % (row, gen, exc))
                        ok = False
                        break
                    got = _deep_plain(dst.x)
                    if got != expected and not (not val and got in (None, [], {})):
                        bad("differs|%s|gen%d" % (row, gen), "%s round trip (generation %d) gives %s" % (row, gen, V.show(got, 120)))
                        ok = False
                        break
                    if b"s3cret-ZQ" in (data if isinstance(data, bytes) else data.encode()):
                        bad("plaintext|%s" % row, "the %s document contains the secret of a nested item" % row)
                    src = dst
                ctx.case(("deep", itemkind, wrap, n, route, row), "deep:%s:%s" % (fmt, "ok" if ok else "bad"), bool(val))
            ctx.traces += 1
    ctx.sample({"deep": job.get("name") or job.get("job"), "populations": len(_deep_values(wrap))})


def run_include(job, ctx):
    """a saved configuration that names an include file: re-loading processes the include again; when the included file
    holds (part of) the same values, at depth 1, 2 and 3, the round trip must reproduce the configuration exactly"""
    import cincoconfig as cc
    rows = ROWS if job["tier"] == "thorough" else QUICK_ROWS
    only = job.get("only")
    values = {"a": 7, "sub": {"c": "cv", "w": 3, "deep": {"e": "ev", "f": 4, "l": [1, 2], "more": {"g": "gv", "h": 5}}}}
    partials = {
        "depth1": {"sub": {"c": "cv"}},
        "depth2": {"sub": {"deep": {"e": "ev"}}},
        "depth3": {"sub": {"deep": {"more": {"g": "gv"}}}},
        "mixed": {"a": 7, "sub": {"w": 3, "deep": {"f": 4, "more": {"h": 5}}}},
        "empty-maps": {"sub": {"deep": {"more": {}}}},
    }
    for pname, partial in partials.items():
        for fmt, opts in rows:
            row = fmt + ("+" + ",".join("%s=%s" % kv for kv in sorted(opts.items())) if opts else "")
            ident = [pname, row]
            if only is not None and only != ident:
                continue
            s = cc.Schema()
            s.include = cc.IncludeField(startdir=ctx.tmp)
            s.a = cc.IntField(default=1)
            s.sub.c = cc.StringField(default="dc")
            s.sub.w = cc.IntField(default=1)
            s.sub.deep.e = cc.StringField(default="de")
            s.sub.deep.f = cc.IntField(default=1)
            s.sub.deep.l = cc.ListField(cc.IntField())
            s.sub.deep.more.g = cc.StringField(default="dg")
            s.sub.deep.more.h = cc.IntField(default=1)
            with open(os.path.join(ctx.tmp, "part.inc"), "wb") as fh:
                fh.write(cc.ConfigFormat.get(fmt, **opts).dumps(None, partial))
            cfg = s()
            cfg.load_tree(dict(values, include="part.inc"))
            want = cc.asdict(cfg)
            case = {"kind": "include", "tier": job["tier"], "only": ident, "job": job.get("name") or job.get("job"), "name": job.get("name") or job.get("job")}
            ctx.transitions += 1
            try:
                data = cfg.dumps(fmt, **opts)
                back = s()
                back.loads(data, fmt, **opts)
                got = cc.asdict(back)
            except Exception as exc:  # noqa
                ctx.case(("include", pname, row), "include:raises", True)
                ctx.violation("C02|include|%s|%s|raises" % (pname, fmt), "round trip of a configuration naming an include file (%s) raised %r" % (pname, exc), case)
                continue
            ctx.case(("include", pname, row), "include:%s" % fmt, True)
            if V.plain(got) != V.plain(want):
                ctx.violation("C02|include|%s|%s|differs" % (pname, fmt), "the included file holds %s; saved %s, re-loaded %s" % (partial, V.show(want, 150), V.show(got, 150)), case)
    ctx.traces += 1
    ctx.sample({"include": list(partials)})


def with_virtuals(spec):
    s = dict(spec)
    s["fields"] = list(spec["fields"]) + [["v", {"k": "Virtual"}], ["m", {"k": "Method"}]]
    return s


def extra_ops(spec, leaf):
    lspec = W.catalogue()[leaf][0]
    ops = []
    for p, f in W.leaf_paths(spec):
        if f == lspec and not f.get("o", {}).get("required") and "[" not in p:
            ops.append(["set", p, None])       # None assigned over a (possibly non-None) default
    # a value that is first set after the configuration has already been serialised once
    if spec.get("dynamic"):
        ops.append(["rset", "late_dynamic", [1, "two"]])
    for key, f in spec["fields"]:
        if f["k"] == "Schema" and f.get("dynamic"):
            ops.append(["rset", key + ".late_dynamic", "v"])
    valid = W.catalogue()[leaf][1]
    for p, f in W.leaf_paths(spec)[:1]:
        if f == lspec and "[" not in p and W._jsonlike(valid[-1]):
            ops.append(["rset", p, valid[-1]])
    return ops


def norm_equal(a, b, fspec=None):
    """asdict equality modulo the stated normalisations"""
    return V.plain(a) == V.plain(b)


def compare(orig, back, spec, pre=""):
    """-> list of paths where the re-loaded asdict differs from the original"""
    out = []
    fields = dict(spec["fields"])
    for key in list(orig) + [k for k in back if k not in orig]:
        path = pre + key
        if key not in back:
            out.append((path, "missing after reload"))
            continue
        if key not in orig:
            out.append((path, "appeared after reload"))
            continue
        a, b = orig[key], back[key]
        f = fields.get(key)
        if f is not None and f["k"] in ("Schema", "CType") and isinstance(a, dict) and isinstance(b, dict):
            out += compare(a, b, f, path + ".")
            continue
        if f is not None and f["k"] == "List" and isinstance(f.get("item"), dict) and f["item"]["k"] in ("Schema", "CType"):
            if a is None and b in (None, []):
                continue
            if not isinstance(a, list) or not isinstance(b, list) or len(a) != len(b):
                out.append((path, "%s != %s" % (V.show(a, 40), V.show(b, 40))))
                continue
            for i, (x, y) in enumerate(zip(a, b)):
                out += compare(x, y, f["item"], "%s[%d]." % (path, i))
            continue
        if V.plain(a) == V.plain(b):
            continue
        typed_container = f is not None and ((f["k"] == "List" and f.get("item")) or (f["k"] == "Dict" and (f.get("key") or f.get("val"))))
        if typed_container and a is None and b is not None and len(b) == 0:
            continue       # an unset typed list/dict may come back empty
        if f is not None and f["k"] == "Secure" and a == "" and b is None:
            continue       # an empty secret comes back unset
        if f is not None and f["k"] in ("List", "Dict") and _empty_secret_items(f, a, b):
            continue
        out.append((path, "%s != %s" % (V.show(a, 50), V.show(b, 50))))
    return out


def _empty_secret_items(f, a, b):
    return False


class Monitor:
    def __init__(self, shape, leaf, tier, keyfile, tmp):
        self.shape, self.leaf, self.tier, self.keyfile, self.tmp = shape, leaf, tier, keyfile, tmp
        self.spec = with_virtuals(W.shape(shape, leaf))
        self.rows = ROWS if tier == "thorough" else QUICK_ROWS
        self.keypath = os.path.join(tmp, "own.key")
        if keyfile == "tilde":         # a home-relative key-file name
            core.home_dir()
            self.keypath = "~/c02-own.key"
            self.keyfile = "own"
            self.kfname = "tilde"
        else:
            self.kfname = keyfile
        self.deepkey = None
        if keyfile == "deep":
            self.keyfile = "own"
            self.deepkey = os.path.join(tmp, "deep.key")
        self.built = W.Built(self.spec)
        self.done = set()

    def case(self, hist, op):
        return {"shape": self.shape, "leaf": self.leaf, "hist": hist, "op": op, "tier": self.tier, "keyfile": self.kfname,
                "job": "%s/%s/%s" % (self.shape, self.leaf, self.kfname)}

    def ctor_failed(self, ctx, spec, init, exc):
        pass

    def step(self, ctx, before, before_ids, op, outcome, w, hist):
        pass

    def fresh(self):
        cfg = self.built.schema()
        if self.keyfile == "own":
            cfg._key_filename = self.keypath
        if self.deepkey:
            cfg.sub.deep._key_filename = self.deepkey
        return cfg

    def state(self, ctx, w, hist):
        import cincoconfig as cc
        cfg = w.cfg
        if self.keyfile == "own":
            cfg._key_filename = self.keypath
        if self.deepkey:
            cfg.sub.deep._key_filename = self.deepkey
        try:
            cfg.validate()
        except Exception:  # noqa
            ctx.case((self.shape, self.leaf, repr(hist)), "state:invalid-skipped", False)
            return
        # states that differ only in user-defined marks serialise identically: one round trip per value state
        vkey = repr(_values_only(W.snapshot(cfg, abstract=True)))
        if vkey in self.done:
            ctx.case((self.shape, self.leaf, repr(hist)), "state:same-values-as-earlier", False)
            return
        self.done.add(vkey)
        hcase = (hist[:-1], hist[-1]) if len(hist) > 1 else (hist, None)
        from mc.props.c01 import _opkey

        def bad(what, msg):
            ctx.violation("C02|%s|%s|%s" % (self.shape, self.leaf, what), "state after %s: %s" % (hist, msg), self.case(*hcase), size=len(hist))
        orig = cc.asdict(cfg)
        # ---- the tree is plain data and has no virtual / method keys unless asked for
        try:
            tree = cfg.to_tree()
            vtree = cfg.to_tree(virtual=True)
        except Exception as exc:  # noqa
            bad("to_tree-raises", "to_tree raised %r" % (exc,))
            return
        if not R.is_plain_data(tree):
            bad("tree-not-plain", "to_tree() is not plain data: %s" % V.show(tree, 120))
        if "v" in tree or "m" in tree:
            bad("virtual-in-tree", "to_tree() contains virtual / instance-method keys: %s" % sorted(tree))
        if "v" not in vtree or vtree.get("v") != 42 or "m" in vtree:
            bad("virtual-tree-wrong", "to_tree(virtual=True) keys %s" % sorted(vtree))
        default_state = len(hist) == 1 and not hist[0][1]
        for fmt, opts in self.rows:
            row = fmt + ("+" + ",".join("%s=%s" % kv for kv in sorted(opts.items())) if opts else "")
            if not c04.representable(tree, fmt):
                ctx.skipped += 1
                continue
            gens = [cfg]
            ok = True
            for gen in (1, 2):
                src = gens[-1]
                ctx.transitions += 1
                try:
                    data = src.dumps(fmt, **opts)
                except Exception as exc:  # noqa
                    bad("dumps-raises|%s|gen%d" % (row, gen), "dumps(%s) of generation %d raised %r" % (row, gen, exc))
                    ok = False
                    break
                dst = self.fresh()
                try:
                    dst.loads(data, fmt, **opts)
                except Exception as exc:  # noqa
                    bad("loads-raises|%s|gen%d" % (row, gen), "loading the %s document back (generation %d) raised %r" % (row, gen, exc))
                    ok = False
                    break
                diffs = compare(orig, cc.asdict(dst), self.spec)
                if diffs:
                    bad("differs|%s|gen%d|%s" % (row, gen, _kind(diffs)), "%s round trip (generation %d) changed %s" % (row, gen, diffs[:3]))
                    ok = False
                    break
                gens.append(dst)
            ctx.case((self.shape, self.leaf, self.kfname, repr(W.snapshot(cfg, abstract=True)), row), "roundtrip:%s:%s" % (fmt, "ok" if ok else "bad"), not default_state)
            if ok and self.keyfile == "own" and ("secure" in self.leaf) and not opts:
                # the re-loaded configuration is given another key file and saved again: the document must then
                # load with that key file (nothing remembered from the first load may leak into the second save)
                ctx.transitions += 1
                try:
                    src = gens[-1]
                    src._key_filename = self.keypath + ".second"
                    data3 = src.dumps(fmt)
                    dst = self.built.schema()
                    dst._key_filename = self.keypath + ".second"
                    if self.deepkey:
                        dst.sub.deep._key_filename = self.deepkey
                    dst.loads(data3, fmt)
                    diffs = compare(orig, cc.asdict(dst), self.spec)
                    if diffs:
                        bad("differs-after-key-change|%s" % row, "after the key file was changed and the configuration saved again, %s reloads differently: %s" % (row, diffs[:3]))
                except Exception as exc:  # noqa
                    bad("raises-after-key-change|%s" % row, "after the key file was changed: %r" % (exc,))
            if ok:
                # through real files, with the same format options on both sides
                path = os.path.join(self.tmp, "saved." + fmt)
                try:
                    cfg.save(path, fmt, **opts)
                    dst = self.fresh()
                    if opts:        # Config.load takes no format options: read the file and decode it with them
                        with open(path, "rb") as fh:
                            written = fh.read()
                        if "secure" not in self.leaf and written != cfg.dumps(fmt, **opts):
                            bad("file-ignores-options|%s" % row, "save(path, %r, **%r) wrote something else than dumps with the same options" % (fmt, opts))
                        dst.loads(written, fmt, **opts)
                    else:
                        dst.load(path, fmt)
                    diffs = compare(orig, cc.asdict(dst), self.spec)
                    if diffs:
                        bad("file-differs|%s" % row, "%s save/load changed %s" % (row, diffs[:3]))
                except Exception as exc:  # noqa
                    bad("file-raises|%s" % row, "save/load through a %s file raised %r" % (row, exc))
                ctx.transitions += 1
        ctx.traces += 1


def _values_only(snap):
    out = []
    for x in snap:
        if x[1] == "cfg":
            out.append((x[0], _values_only(x[2])))
        elif x[1].startswith("cfgs:"):
            out.append((x[0], tuple(_values_only(y) for y in x[2])))
        else:
            out.append((x[0], x[2]))
    return tuple(out)


def _kind(diffs):
    p = diffs[0][0]
    return "item" if "[" in p else ("nested" if "." in p else "root")


def run_transfer(job, ctx):
    """round trips after histories that involve a second object: (a) a list of configurations with secrets taken over from a
    configuration of the same schema that uses ANOTHER key file (whole assignment, constructor keyword, extend, slice),
    saved and loaded under the receiver's key file; (b) a persistent field declared under a key that the configuration
    first held as an undeclared value (bytes, secret, typed list of bytes), then assigned and saved"""
    import cincoconfig as cc
    rows = ROWS if job["tier"] == "thorough" else QUICK_ROWS
    only = job.get("only")
    scenarios = ["adopt-assign", "adopt-ctor-kw", "adopt-extend", "adopt-slice", "late-bytes", "late-secure", "late-list-bytes", "late-bytes-nested"]
    ka, kb = os.path.join(ctx.tmp, "tr-a.key"), os.path.join(ctx.tmp, "tr-b.key")
    open(ka, "wb").write(bytes(range(32))); open(kb, "wb").write(bytes(range(64, 96)))
    for sc in scenarios:
        for fmt, opts in rows:
            row = fmt + ("+" + ",".join("%s=%s" % kv for kv in sorted(opts.items())) if opts else "")
            ident = [sc, row]
            if only is not None and only != ident:
                continue
            s = cc.Schema(dynamic=True)
            s.name = cc.StringField(default="n")
            item = cc.Schema()
            item.user = cc.StringField()
            item.pw = cc.SecureField(method="aes")
            item.inner.tok = cc.SecureField(method="xor")
            s.accounts = cc.ListField(item)
            s.sub = cc.Schema(dynamic=True)
            s.sub.c = cc.IntField(default=1)
            items = [{"user": "ann", "pw": "pw-ann-0123456789", "inner": {"tok": "tok-ann"}}, {"user": "bob", "pw": "pw-bob"}]
            if sc.startswith("adopt"):
                a = cc.Config(s, key_filename=ka)
                a.accounts = items
                if sc == "adopt-assign":
                    b = cc.Config(s, key_filename=kb); b.accounts = a.accounts
                elif sc == "adopt-ctor-kw":
                    b = cc.Config(s, key_filename=kb, accounts=a.accounts)
                elif sc == "adopt-extend":
                    b = cc.Config(s, key_filename=kb); b.accounts = []; b.accounts.extend(a.accounts)
                else:
                    b = cc.Config(s, key_filename=kb); b.accounts = [{"user": "x"}]; b.accounts[0:1] = a.accounts
            else:
                b = cc.Config(s, key_filename=kb)
                b.accounts = items      # (an unset list of configurations is the exploration jobs' subject, not this one's)
                if sc == "late-bytes":
                    b.late = "undeclared"; s.late = cc.BytesField(); b.late = b"\x00\xff\x10bin"
                elif sc == "late-secure":
                    b.late = "undeclared"; s.late = cc.SecureField(method="aes"); b.late = "late-secret-value"
                elif sc == "late-list-bytes":
                    b.late = [1]; s.late = cc.ListField(cc.BytesField()); b.late = [b"\x00\xfe", b"z"]
                else:
                    b.sub.late = "undeclared"; s.sub.late = cc.BytesField(); b.sub.late = b"\x01\x02\xfd"
            want = cc.asdict(b)
            case = {"kind": "transfer", "tier": job["tier"], "only": ident, "job": job.get("name") or job.get("job"), "name": job.get("name") or job.get("job")}
            ctx.transitions += 1
            try:
                data = b.dumps(fmt, **opts)
                back = cc.Config(s, key_filename=kb)
                back.loads(data, fmt, **opts)
                got = cc.asdict(back)
            except Exception as exc:  # noqa
                ctx.case(("transfer", sc, row), "transfer:raises", True)
                ctx.violation("C02|transfer|%s|%s|raises" % (sc, fmt), "round trip after %s raised %r" % (sc, exc), case)
                continue
            ctx.case(("transfer", sc, row), "transfer:%s" % fmt, True)
            if V.plain(got) != V.plain(want):
                ctx.violation("C02|transfer|%s|%s|differs" % (sc, fmt), "after %s: saved %s, re-loaded %s" % (sc, V.show(want, 150), V.show(got, 150)), case)
    ctx.traces += 1
    ctx.sample({"transfer": scenarios})


def run_job(job, ctx):
    single = job.get("single")
    if single and single.get("kind") == "deep":
        return run_deep(single, ctx)
    if job.get("kind") == "deep":
        return run_deep(job, ctx)
    if single and single.get("kind") == "include":
        return run_include(single, ctx)
    if job.get("kind") == "include":
        return run_include(job, ctx)
    if single and single.get("kind") == "transfer":
        return run_transfer(single, ctx)
    if job.get("kind") == "transfer":
        return run_transfer(job, ctx)
    if single:
        m = Monitor(single["shape"], single["leaf"], single.get("tier", "quick"), single.get("keyfile", "own"), ctx.tmp)
        W.explore(ctx, m.spec, single["leaf"], 0, m, only=(single["hist"], single["op"]))
        return
    m = Monitor(job["shape"], job["leaf"], job["tier"], job["keyfile"], ctx.tmp)
    n, nops = W.explore(ctx, m.spec, job["leaf"], job["depth"], m, tier="quick", max_states=1500 if job["tier"] == "quick" else 6000,
                        extra_ops=extra_ops(m.spec, job["leaf"]), drop=("nv", "selfset", "augset"))   # routes that reach no state the others do not reach
    ctx.sample({"shape": job["shape"], "leaf": job["leaf"], "keyfile": job["keyfile"], "states": n, "rows": [r[0] for r in m.rows]})
