"""
C17 - typed list/dict values behave like built-in list/dict of validated (normalised) items.

Explicit-state search: the reachable content states (all lists up to MAXLEN over the normalised
item alphabet, all dicts over the key/value alphabets) are enumerated with their shortest
operation history on the *reference model* (a built-in list/dict that receives normalised
arguments); every (state, operation) pair is then executed on the real proxy, which is
re-materialised by replaying that history on a fresh configuration, in lock-step with the model.
"""
import collections

from mc import values as V
from mc.values import ITER, GEN, T, D

PROP = "C17"
LEVEL = "model_checking"
RULE = ("every (content state, operation) pair: states = all reachable contents up to the length bound, "
        "operations = every list/dict operation named in the statement with every argument shape; a case is "
        "non-trivial when the operation changes the contents, returns a value, or raises; distinct = distinct "
        "(item kind, state, operation) triples")
ASSUMPTIONS = [
    "CPython built-in list/dict are the reference semantics",
    "item normalisation reference: int(x) for IntField(min=0,max=9); x.strip().lower() for the string kind",
]


# ---------------------------------------------------------------------------------------------
# item kinds
# ---------------------------------------------------------------------------------------------
def _clamp(cfg, value):
    return min(value, cfg.limit)


def _kinds():
    from cincoconfig import IntField, StringField
    return {
        "int": {
            "field": lambda: IntField(min=0, max=9),
            "other": lambda: IntField(),
            "norm": lambda x: int(x),
            "raw": [1, "2", V.F(3.0)],
            "invalid": "x",
            "probe": ("4", 4),
        },
        "float": {
            "field": lambda: __import__("cincoconfig").FloatField(min=0, max=9),
            "other": lambda: __import__("cincoconfig").FloatField(),
            "norm": lambda x: float(x),
            "raw": [1, "2.5", V.F(3.0)],
            "invalid": "x",
            "probe": ("4", 4.0),
        },
        "scale": {
            "field": lambda: __import__("cincoconfig").IntField(validator=lambda cfg, v: v * 10),
            "other": lambda: __import__("cincoconfig").IntField(),
            "norm": lambda x: int(x) * 10,
            "raw": [1, "2"],
            "invalid": "x",
            "probe": ("4", 40),
        },
        "clamp": {
            # the item validator reads its owning configuration: items taken from another configuration's list must be
            # normalised again for this one (limit 5 here, 9 in the other configuration)
            "field": lambda: IntField(validator=_clamp),
            "other": lambda: IntField(),
            "norm": lambda x: min(int(x), 5),
            "raw": [1, "7", 8],
            "invalid": "x",
            "probe": ("9", 5),
        },
        "str": {
            "field": lambda: StringField(transform_case="lower", transform_strip=True, max_len=3),
            "other": lambda: StringField(),
            "norm": lambda x: x.strip().lower(),
            "raw": ["a", " B "],
            "invalid": 5,
            "probe": (" C ", "c"),
        },
    }


def _kind(kind):
    """kind names may carry a world variant: 'int@default' = the value under test is the field's untouched empty default"""
    return kind.split("@")[0]


DICT_KINDS = {
    "str-int": {
        "keys": ["a", " A ", "b"],
        "vals": [1, "2"],
        "knorm": lambda k: k.strip().lower(),
        "vnorm": lambda v: None if v is None else int(v),
        "invalid_val": "x",
        "probe": ((" Z ", "7"), ("z", 7)),
    },
}


DICT_KINDS["str-any"] = {
    "keys": ["a", " A ", "b"],
    "vals": [0, False, 1, True, 2, V.F(2.0)],
    "knorm": lambda k: k.strip().lower(),
    "vnorm": lambda v: v,
    "invalid_val": None,
    "probe": ((" Z ", "7"), ("z", "7")),
}


# explicitly given AnyFields that carry validators: what is stored is what the validators return
DICT_KINDS["str-clamp"] = {
    "keys": ["a", " A ", "b"],
    "vals": [1, "7", 8],
    "knorm": lambda k: k.strip().lower(),
    "vnorm": lambda v: None if v is None else min(int(v), 5),
    "invalid_val": "x",
    "probe": ((" Z ", "9"), ("z", 5)),
}
DICT_KINDS["anyv-anyv"] = {
    "keys": ["a", "A", "b"],
    "vals": [1, -2, 3],
    "knorm": lambda k: k.lower(),
    "vnorm": lambda v: None if v is None else abs(v),
    "invalid_val": 13,
    "probe": (("Z", -7), ("z", 7)),
}


# no key field at all: any hashable key, tuples (of any length) included
DICT_KINDS["anykey-int"] = {
    "keys": [T("x", "y"), T(), 5],
    "vals": [1, "2"],
    "knorm": lambda k: k,
    "vnorm": lambda v: None if v is None else int(v),
    "invalid_val": "x",
    "probe": (("Z", "7"), ("Z", 7)),
}


def _any_key(cfg, k):
    return k.lower()


def _any_val(cfg, v):
    if v == 13:
        raise ValueError("unlucky")
    return abs(v)


def _dict_field(kind="str-int"):
    from cincoconfig import DictField, StringField, AnyField
    if kind == "anyv-anyv":
        return DictField(key_field=AnyField(validator=_any_key), value_field=AnyField(validator=_any_val))
    if kind == "str-clamp":
        from cincoconfig import IntField
        return DictField(key_field=StringField(transform_case="lower", transform_strip=True, max_len=3), value_field=IntField(validator=_clamp))
    if kind == "str-any":
        return DictField(key_field=StringField(transform_case="lower", transform_strip=True, max_len=3))
    if kind == "anykey-int":
        from cincoconfig import IntField
        return DictField(value_field=IntField(min=0, max=9))
    return _dict_field_int()


def _dict_field_int():
    from cincoconfig import DictField, IntField, StringField
    return DictField(key_field=StringField(transform_case="lower", transform_strip=True, max_len=3),
                     value_field=IntField(min=0, max=9))


# ---------------------------------------------------------------------------------------------
# worlds
# ---------------------------------------------------------------------------------------------
class ListWorld:
    def __init__(self, kind):
        from cincoconfig import Schema, ListField
        variant = kind.split("@")[1] if "@" in kind else None
        k = _kinds()[_kind(kind)]
        self.k = k
        schema = Schema()
        if variant == "default":
            schema.l = ListField(k["field"](), default=list)         # an empty default produced by a factory
        elif variant == "default-literal":
            schema.l = ListField(k["field"](), default=[])
        else:
            schema.l = ListField(k["field"]())
        schema.m = ListField(k["field"]())
        schema.w = ListField(k["other"]())
        from cincoconfig import IntField as _Int
        schema.limit = _Int(default=5)
        self.schema = schema
        self.cfg = schema()
        self.cfg2 = schema()
        self.cfg2.limit = 9
        if variant is None:
            self.cfg.l = []
        self.proxy = self.cfg.l          # with a variant: the default value as installed at construction, never assigned
        self.model = []

    def resolve(self, spec):
        """Argument shapes that need the world: proxies of the same / another field / config."""
        items = [V.dec(x) for x in spec["items"]]
        which = spec["proxy"]
        if which == "same":
            self.cfg.m = items  # validated by an equal-constraint field of the same config
            # a proxy bound to the *same field*: copy of an assigned value
            tmp = type(self.proxy)(self.cfg, self.schema._fields["l"], items)
            return tmp
        if which == "otherfield":
            self.cfg.w = items
            return self.cfg.w
        if which == "othercfg":
            self.cfg2.l = items
            return self.cfg2.l
        raise ValueError(which)


class DictWorld:
    def __init__(self, kind):
        from cincoconfig import Schema, DictField, StringField, IntField
        variant = kind.split("@")[1] if "@" in kind else None
        self.k = DICT_KINDS[_kind(kind)]
        schema = Schema()
        schema.d = _dict_field(_kind(kind))
        schema.limit = IntField(default=5)
        if variant == "default":
            schema.d._default = dict
        schema.e = DictField(key_field=StringField(), value_field=IntField())
        self.schema = schema
        self.cfg = schema()
        self.cfg2 = schema()
        self.cfg2.limit = 9
        if variant is None:
            self.cfg.d = {}
        self.proxy = self.cfg.d
        self.model = {}

    def resolve(self, spec):
        items = V.dec(spec["items"])
        which = spec["proxy"]
        if which == "same":
            return type(self.proxy)(self.cfg, self.schema._fields["d"], items)
        if which == "otherfield":
            self.cfg.e = items
            return self.cfg.e
        if which == "othercfg":
            self.cfg2.d = items
            return self.cfg2.d
        raise ValueError(which)


# ---------------------------------------------------------------------------------------------
# operation alphabets
# ---------------------------------------------------------------------------------------------
def _iterables(contents, full=True):
    """Every argument shape for an iterable-taking operation."""
    out = []
    for c in contents:
        out.append(("list", list(c)))
        out.append(("tuple", T(*c)))
        out.append(("iter", ITER(c)))
        out.append(("gen", GEN(c)))
        out.append(("legacy-seq", {"$": "legacyseq", "v": list(c)}))
        out.append(("proxy-same", {"$": "ref", "proxy": "same", "items": list(c)}))
        out.append(("proxy-otherfield", {"$": "ref", "proxy": "otherfield", "items": list(c)}))
        out.append(("proxy-othercfg", {"$": "ref", "proxy": "othercfg", "items": list(c)}))
    return out


def list_ops(kind):
    k = _kinds()[_kind(kind)]
    raw = k["raw"]
    contents = [[], [raw[0]], [raw[1], raw[-1]]]
    ops = []
    for v in raw:
        ops.append(["append", v])
    for i in (0, 1, -1, 99):
        for v in raw[:2]:
            ops.append(["insert", i, v])
    for shape, it in _iterables(contents):
        if shape not in ("iter", "gen", "legacy-seq"):
            ops.append(["assign", shape, it])
        ops.append(["extend", shape, it])
        ops.append(["iadd", shape, it])
        if shape in ("list", "proxy-same", "proxy-otherfield", "proxy-othercfg"):
            ops.append(["add", shape, it])
            if shape == "list" and it:
                ops.append(["radd", shape, it])
    for text in ("12", ""):          # a string is an iterable of its characters, for += as for extend
        ops.append(["iadd", "str", text])
        ops.append(["extend", "str", text])
    ops.append(["extend_watch", raw[:2]])
    ops.append(["iadd_watch", raw[:1]])
    for i in (0, 1, -1, 99):
        for v in raw[:2]:
            ops.append(["setitem", i, v])
    for sl in ([0, 1, None], [1, None, None], [None, 0, None], [None, None, 2], [5, None, None], [None, None, -1], [None, None, -2], [-2, None, -2], [-1, 0, -1]):
        for shape, it in _iterables(contents):
            ops.append(["setslice", sl, shape, it])
        ops.append(["delslice", sl])
        ops.append(["getslice", sl])
    for bad in ("a", V.F(1.0), None):
        ops.append(["setitem_badindex", bad, raw[0]])
    for i in (0, -1, 1, 99):
        ops.append(["setitem_idx", i, raw[0]])
        ops.append(["setitem_idx", i, raw[1]])
        ops.append(["getitem_idx", i])
        ops.append(["delitem_idx", i])
    ops.append(["insert_idx", 1, raw[1]])
    ops.append(["setslice_idx", [0, 1], "list", [raw[1], raw[0]]])
    for n in (0, 2):
        ops.append(["mul", n])
        ops.append(["imul", n])
    ops.append(["copy"])
    for i in (None, 0, 99):
        ops.append(["pop", i])
    for v in raw:
        ops.append(["remove", v])
        ops.append(["index", v])
        ops.append(["count", v])
        ops.append(["contains", v])
    nv = [k["norm"](V.dec(v)) for v in raw]
    for v in nv:
        ops.append(["remove", v])
        ops.append(["index", v])
        ops.append(["count", v])
        ops.append(["contains", v])
    for i in (0, -1, 99):
        ops.append(["delitem", i])
        ops.append(["getitem", i])
    ops += [["sort", False], ["sort", True], ["reverse"], ["clear"], ["len"], ["list"], ["iter"],
            ["reversed"], ["eq_list"], ["bool"], ["validate_identity"]]
    if _kind(kind) == "scale":
        # the item validator is deliberately not idempotent: what "the normalised form" of an item taken from a typed list
        # of the same field is, is not determined by the statement, so those argument shapes are left out for this kind
        ops = [op for op in ops if not any(isinstance(a, str) and a in ("proxy-same", "proxy-othercfg") for a in op[1:3])]
    return ops


def dict_ops(kind):
    k = DICT_KINDS[_kind(kind)]
    keys, vals = k["keys"], k["vals"]
    ops = []
    for key in keys:
        for v in vals:
            ops.append(["setitem", key, v])
            ops.append(["setdefault2", key, v])
        ops.append(["setdefault1", key])
        ops.append(["pop", key])
        ops.append(["popd", key, 0])
        ops.append(["delitem", key])
        ops.append(["get", key])
        ops.append(["contains", key])
        ops.append(["getitem", key])
    for key in ("a", "b", "zz"):
        ops.append(["pop", key]); ops.append(["popd", key, 0]); ops.append(["delitem", key])
        ops.append(["get", key]); ops.append(["contains", key]); ops.append(["getitem", key])
    contents = [[], [[keys[0], vals[0]]], [[keys[1], vals[1]], [keys[2], vals[0]]],
                [[keys[0], vals[1]], [keys[1], vals[0]]]]
    for c in contents:
        shapes = [("dict", D(*c)), ("pairs", [list(p) for p in c]), ("pairs-tuple", T(*[T(*p) for p in c])),
                  ("iter-pairs", ITER([T(*p) for p in c])),
                  ("proxy-same", {"$": "ref", "proxy": "same", "items": D(*c)}),
                  ("proxy-otherfield", {"$": "ref", "proxy": "otherfield", "items": D(*c)}),
                  ("proxy-othercfg", {"$": "ref", "proxy": "othercfg", "items": D(*c)})]
        for shape, it in shapes:
            if shape in ("dict", "proxy-same", "proxy-otherfield", "proxy-othercfg"):
                ops.append(["assign", shape, it])
            ops.append(["update", shape, it, {}])
            if shape in ("dict", "pairs", "proxy-same", "proxy-otherfield", "proxy-othercfg"):
                ops.append(["ior", shape, it])
        for shape in ("proxy-same", "proxy-otherfield", "proxy-othercfg"):
            ops.append(["update", shape + "+kw", {"$": "ref", "proxy": shape[6:], "items": D(*c)}, {"a": vals[1], "b": vals[0]}])
        ops.append(["update", "pairs+kw", [list(p) for p in c], {"b": vals[1]}])
        ops.append(["update", "dict+kw", D(*c), {"a": vals[1]}])
        ops.append(["update", "dict+kw", D(*c), {"b": vals[0], "a": vals[0]}])
    ops.append(["update", "none", None, {}])
    ops.append(["update", "kw", None, {"a": vals[0]}])
    ops.append(["update", "kw", None, {"b": vals[1], "a": vals[1]}])
    ops += [["popitem"], ["clear"], ["copy"], ["len"], ["keys"], ["values"], ["items"], ["eq_dict"],
            ["iter"], ["bool"], ["validate_identity"]]
    return ops


# ---------------------------------------------------------------------------------------------
# applying one operation to the proxy (raw arguments) or to the model (normalised arguments)
# ---------------------------------------------------------------------------------------------
def _sl(s):
    return slice(*s)


class Idx:
    """an integer-like position that is not an int (numpy integers, ctypes, ...): only __index__"""

    def __init__(self, n):
        self.n = n

    def __index__(self):
        return self.n


def apply_list(target, op, norm, resolve):
    """norm=None: the real proxy gets the raw argument; else the model gets normalised ones."""
    name = op[0]
    dec = lambda s: V.dec(s, resolve)  # noqa
    nv = (lambda x: x) if norm is None else norm
    def nit(it):
        if norm is None:
            return it
        if getattr(it, "item_field", None) is getattr(norm, "same_field", object()) and getattr(it, "cfg", None) is getattr(norm, "same_cfg", None):
            return list(it)        # a typed list of the very same item field *of this configuration* already holds normal forms
        return [norm(x) for x in it]
    if name == "validate_identity":      # a whole-configuration validation pass leaves the value object in place
        if norm is None:
            target.cfg.validate()
            target.cfg.load_tree({})
            return target.cfg.l is target
        return True
    if name == "assign":          # the whole value is assigned through the owning configuration
        if norm is None:
            target.cfg.l = dec(op[2])
            return ("rebind", target.cfg.l)
        target[:] = nit(dec(op[2]))
        return ("rebind", target)
    if name == "append":
        return target.append(nv(dec(op[1])))
    if name == "insert":
        return target.insert(op[1], nv(dec(op[2])))
    if name == "extend":
        return target.extend(nit(dec(op[2])))
    if name in ("extend_watch", "iadd_watch"):
        # a lazy iterable that looks at the list it is feeding: a built-in list stores each item before it asks for the next
        items = [dec(x) for x in op[1]]
        cap = len(target) + 2
        gen = (nv(v) for v in items * 3 if len(target) < cap)
        if name == "extend_watch":
            return target.extend(gen)
        target += gen
        return ("self", target)
    if name == "iadd":
        target += nit(dec(op[2]))
        return ("self", target)
    if name == "add":
        return target + nit(dec(op[2]))
    if name == "radd":            # a plain list on the left: the plain list's contents come first
        return list(dec(op[2])) + target      # (an ordinary list: the left operand's items as they are)
    if name == "setitem":
        target[op[1]] = nv(dec(op[2]))
        return None
    if name == "setitem_idx":
        target[Idx(op[1])] = nv(dec(op[2]))
        return None
    if name == "getitem_idx":
        return target[Idx(op[1])]
    if name == "delitem_idx":
        del target[Idx(op[1])]
        return None
    if name == "insert_idx":
        return target.insert(Idx(op[1]), nv(dec(op[2])))
    if name == "setslice_idx":
        target[slice(Idx(op[1][0]), Idx(op[1][1]))] = nit(dec(op[3]))
        return None
    if name == "setitem_badindex":
        target[dec(op[1])] = nv(dec(op[2]))
        return None
    if name == "setslice":
        target[_sl(op[1])] = nit(dec(op[3]))
        return None
    if name == "delslice":
        del target[_sl(op[1])]
        return None
    if name == "getslice":
        return target[_sl(op[1])]
    if name == "mul":
        return target * op[1]
    if name == "imul":
        target *= op[1]
        return ("self", target)
    if name == "copy":
        return target.copy()
    if name == "pop":
        return target.pop() if op[1] is None else target.pop(op[1])
    if name == "remove":
        return target.remove(dec(op[1]))
    if name == "index":
        return target.index(dec(op[1]))
    if name == "count":
        return target.count(dec(op[1]))
    if name == "contains":
        return dec(op[1]) in target
    if name == "delitem":
        del target[op[1]]
        return None
    if name == "getitem":
        return target[op[1]]
    if name == "sort":
        return target.sort(reverse=op[1])
    if name == "reverse":
        return target.reverse()
    if name == "clear":
        return target.clear()
    if name == "len":
        return len(target)
    if name == "list":
        return list(target)
    if name == "iter":
        return [x for x in target]
    if name == "reversed":
        return list(reversed(target))
    if name == "eq_list":
        return target == list(target)
    if name == "bool":
        return bool(target)
    raise ValueError(name)


def apply_dict(target, op, norms, resolve):
    name = op[0]
    dec = lambda s: V.dec(s, resolve)  # noqa
    if norms is None:
        kn = vn = lambda x: x  # noqa
    else:
        kn, vn = norms

    def pairs(it):
        if norms is None:
            return it
        if isinstance(it, dict):
            it = list(it.items())
        return [(kn(k), vn(v)) for k, v in it]

    if name == "validate_identity":
        if norms is None:
            target.cfg.validate()
            target.cfg.load_tree({})
            return target.cfg.d is target
        return True
    if name == "assign":
        if norms is None:
            target.cfg.d = dec(op[2])
            return ("rebind", target.cfg.d)
        new = pairs(dec(op[2]))
        target.clear()
        target.update(new)
        return ("rebind", target)
    if name == "setitem":
        target[kn(dec(op[1]))] = vn(dec(op[2]))
        return None
    if name == "setdefault2":
        return target.setdefault(kn(dec(op[1])), vn(dec(op[2])))
    if name == "setdefault1":
        return target.setdefault(kn(dec(op[1])))
    if name == "pop":
        return target.pop(dec(op[1]))
    if name == "popd":
        return target.pop(dec(op[1]), op[2])
    if name == "delitem":
        del target[dec(op[1])]
        return None
    if name == "get":
        return target.get(dec(op[1]))
    if name == "contains":
        return dec(op[1]) in target
    if name == "getitem":
        return target[dec(op[1])]
    if name == "update":
        kw = {kn(k): vn(V.dec(v)) for k, v in op[3].items()} if norms is not None else {k: V.dec(v) for k, v in op[3].items()}
        if op[2] is None:
            return target.update(**kw)
        return target.update(pairs(dec(op[2])), **kw)
    if name == "ior":
        target |= pairs(dec(op[2]))
        return ("self", target)
    if name == "popitem":
        return target.popitem()
    if name == "clear":
        return target.clear()
    if name == "copy":
        return target.copy()
    if name == "len":
        return len(target)
    if name == "keys":
        return list(target.keys())
    if name == "values":
        return list(target.values())
    if name == "items":
        return list(target.items())
    if name == "eq_dict":
        return target == dict(target)
    if name == "iter":
        return [k for k in target]
    if name == "bool":
        return bool(target)
    raise ValueError(name)


def _outcome(fn):
    try:
        return ("ok", fn())
    except Exception as exc:  # noqa
        return ("raise", exc)


# ---------------------------------------------------------------------------------------------
# model-only reachability (gives every content state with a shortest history)
# ---------------------------------------------------------------------------------------------
def model_states(container, kind, maxlen):
    if container == "list":
        k = _kinds()[_kind(kind)]
        ops = [["append", v] for v in k["raw"]] + [["insert", 0, v] for v in k["raw"][:2]] + [["pop", None]]
        norm = k["norm"]
        start = []
        app = lambda m, op: apply_list(m, op, norm, None)  # noqa
    else:
        k = DICT_KINDS[_kind(kind)]
        ops = [["setitem", key, v] for key in k["keys"] for v in k["vals"]] + \
              [["setitem", key, None] for key in k["keys"][:1]] + [["delitem", "a"], ["delitem", "b"]]
        norms = (k["knorm"], k["vnorm"])
        start = {}
        app = lambda m, op: apply_dict(m, op, norms, None)  # noqa
    seen = {repr(V.canon(start)) if container == "list" else repr(list(start.items())): []}
    order = [[]]
    frontier = collections.deque([[]])
    while frontier:
        hist = frontier.popleft()
        for op in ops:
            m = type(start)()
            for h in hist:
                app(m, h)
            try:
                app(m, op)
            except Exception:
                continue
            if len(m) > maxlen:
                continue
            key = repr(V.canon(m)) if container == "list" else repr(list(m.items()))
            if key not in seen:
                seen[key] = hist + [op]
                order.append(hist + [op])
                frontier.append(hist + [op])
    return order


# ---------------------------------------------------------------------------------------------
# jobs
# ---------------------------------------------------------------------------------------------
def bounds(tier):
    return {"list_kinds": (["int", "str", "float", "scale"] if tier == "thorough" else ["int", "str", "scale"]) + ["int@default", "str@default-literal", "clamp"],
            "list_maxlen": {"clamp": 2, "int": 5 if tier == "thorough" else 3, "str": 6 if tier == "thorough" else 3, "float": 4, "scale": 2},
            "dict_kinds": ["str-int", "str-any", "anyv-anyv", "str-int@default", "str-clamp", "anykey-int"], "dict_maxlen": 3 if tier == "thorough" else 2}


def jobs(tier):
    b = bounds(tier)
    out = []
    for kind in b["list_kinds"]:
        states = model_states("list", kind, b["list_maxlen"][_kind(kind)])
        nchunk = 24 if tier == "thorough" else 8
        for c in range(nchunk):
            chunk = states[c::nchunk]
            if chunk:
                out.append({"name": "list/%s/%02d" % (kind, c), "container": "list", "kind": kind,
                            "states": chunk, "nstates_total": len(states) if c == 0 else 0})
    for kind in b["dict_kinds"]:
        states = model_states("dict", kind, b["dict_maxlen"])
        nchunk = 8
        for c in range(nchunk):
            chunk = states[c::nchunk]
            if chunk:
                out.append({"name": "dict/%s/%02d" % (kind, c), "container": "dict", "kind": kind,
                            "states": chunk, "nstates_total": len(states) if c == 0 else 0})
    return out


def _argshape(op):
    name = op[0]
    if name in ("extend", "iadd", "add", "assign", "radd"):
        return op[1]
    if name == "setslice":
        return "%s<-%s" % (op[1], op[2])
    if name in ("update", "ior"):
        return op[1]
    if name == "setitem_badindex":
        return "index=%s" % type(V.dec(op[1])).__name__
    return ""


def run_job(job, ctx):
    single = job.get("single")
    if single:
        _check_transition(ctx, single["container"], single["kind"], single["hist"], single["op"])
        return
    container, kind = job["container"], job["kind"]
    ops = list_ops(kind) if container == "list" else dict_ops(kind)
    ctx.states += len(job["states"])
    for hist in job["states"]:
        ctx.depth = max(ctx.depth, len(hist) + 1)
        for op in ops:
            _check_transition(ctx, container, kind, hist, op)
    ctx.sample({"container": container, "kind": kind, "history": job["states"][-1], "then_each_of": len(ops)})
    ctx.closed = True


def _check_transition(ctx, container, kind, hist, op):
    W = ListWorld if container == "list" else DictWorld
    w = W(kind)
    k = w.k
    base0 = "C17|%s|%s|" % (container, kind)
    if type(w.proxy).__name__ != ("ListProxy" if container == "list" else "DictProxy"):
        ctx.case((kind, "world"), "world:untyped", True)
        ctx.violation(base0 + "value-not-typed", "the value of the typed field (as installed at construction) is a plain %s" % type(w.proxy).__name__,
                      {"container": container, "kind": kind, "hist": hist, "op": op, "job": "%s/%s" % (container, kind)})
        return
    if container == "list":
        norm = lambda x: k["norm"](x)  # noqa
        norm.same_field = w.proxy.item_field
        norm.same_cfg = w.cfg
        app = apply_list
        nm = norm
    else:
        nm = (k["knorm"], k["vnorm"])
        app = apply_dict
    # re-materialise the state by replaying its history on the real proxy and on the model
    try:
        for h in hist:
            app(w.proxy, h, None, w.resolve)
            app(w.model, h, nm, w.resolve)
    except Exception:
        ctx.case((kind, hist, op), "prefix-diverged", False)
        return
    base = "C17|%s|%s|%s|%s" % (container, kind, op[0], _argshape(op))
    case = {"container": container, "kind": kind, "hist": hist, "op": op, "job": "%s/%s" % (container, kind)}
    if V.plain(w.proxy) != V.plain(w.model) and container == "list" or \
            (container == "dict" and list(w.proxy.items()) != list(w.model.items())):
        # the prefix already diverged: reported by the transition that caused it
        ctx.case((kind, hist, op), "prefix-diverged", False)
        return
    before = V.plain(w.model)
    po = _outcome(lambda: app(w.proxy, op, None, w.resolve))
    mo = _outcome(lambda: app(w.model, op, nm, w.resolve))
    ctx.transitions += 1
    ctx.traces += 1

    cls = "ok" if mo[0] == "ok" else "raise:" + type(mo[1]).__name__
    changed = V.plain(w.model) != before
    nontrivial = changed or mo[0] == "raise" or (mo[0] == "ok" and mo[1] is not None)
    ctx.case((container, kind, hist, op), "%s:%s" % (op[0], cls), nontrivial)

    def bad(what, msg):
        ctx.violation(base + "|" + what, "%s after history %s, op %s: %s" % (container, hist, op, msg), case,
                      size=len(hist))

    if mo[0] == "raise" and po[0] == "ok":
        bad("no-exception", "built-in raises %s, typed container returned %s" % (type(mo[1]).__name__, V.show(po[1])))
        return
    if mo[0] == "ok" and po[0] == "raise":
        bad("unexpected-" + type(po[1]).__name__, "built-in accepts, typed container raised %r" % (po[1],))
        return
    if mo[0] == "raise":
        if type(mo[1]) is not type(po[1]):
            bad("exception-class", "built-in raises %s, typed container raises %s" % (type(mo[1]).__name__, type(po[1]).__name__))
        if _content(container, w.proxy) != _content(container, w.model):
            bad("contents-after-raise", "contents %s != built-in %s" % (V.show(w.proxy), V.show(w.model)))
        return
    if op[0] == "assign":
        new = po[1][1]
        if type(new).__name__ != type(w.proxy).__name__:
            bad("assigned-type", "after the assignment the field holds a %s" % type(new).__name__)
            return
        if _content(container, new) != _content(container, w.model):
            bad("contents", "after the assignment the field holds %s, built-in of the normalised items %s" % (V.show(new), V.show(w.model)))
            return
        bound = (getattr(new, "list_field", None) or getattr(new, "dict_field", None))
        if bound is not w.schema._fields["l" if container == "list" else "d"] or new.cfg is not w.cfg:
            bad("assigned-binding", "the value now held is a typed container of another field or configuration")
            return
        w.proxy = new
        if not _typed_ok(container, w, new):
            bad("assigned-untyped", "the value now held no longer normalises / rejects like its field")
        return
    # both returned
    if _content(container, w.proxy) != _content(container, w.model):
        bad("contents", "contents %s != built-in %s" % (V.show(w.proxy), V.show(w.model)))
        return
    pr, mr = po[1], mo[1]
    if isinstance(mr, tuple) and len(mr) == 2 and mr[0] == "self":
        if not (isinstance(pr, tuple) and pr[0] == "self") or type(pr[1]).__name__ != type(w.proxy).__name__:
            bad("inplace-result-type", "in-place operator produced %s" % type(pr[1]).__name__)
            return
        pr, mr = pr[1], mr[1]
        if not _typed_ok(container, w, pr):
            bad("inplace-result-untyped", "result of in-place operator no longer validates")
        return
    if V.plain(pr) != V.plain(mr):
        bad("return", "returned %s, built-in returned %s" % (V.show(pr), V.show(mr)))
        return
    if op[0] in ("copy", "add"):
        if type(pr).__name__ != type(w.proxy).__name__:
            bad("result-type", "%s returned a %s, not a typed container" % (op[0], type(pr).__name__))
        elif pr is w.proxy:
            bad("result-aliased", "%s returned the container itself" % op[0])
        elif not _typed_ok(container, w, pr):
            bad("result-untyped", "%s result no longer normalises / rejects" % op[0])
        else:
            # the copy must be independent of the original
            if _content(container, w.proxy) != _content(container, w.model):
                bad("copy-aliased", "mutating the %s result changed the original" % op[0])


def _content(container, obj):
    if container == "list":
        return V.plain(list(obj))
    return [(V.canon(k), V.canon(v)) for k, v in obj.items()]


def _typed_ok(container, w, res):
    """The result still normalises a valid raw item and rejects an invalid one."""
    k = w.k
    try:
        if container == "list":
            raw, normal = k["probe"]
            res.append(raw)
            if V.canon(res[-1]) != V.canon(normal):
                return False
            res.pop()
            try:
                res.append(k["invalid"])
            except Exception:
                return True
            return False
        (rk, rv), (nk, nv) = k["probe"]
        res[rk] = rv
        if nk not in res or V.canon(res[nk]) != V.canon(nv) or (rk != nk and rk in res):
            return False
        del res[nk]
        try:
            if k["invalid_val"] is None:
                res["key-too-long"] = 1        # any value is fine for this kind: probe with an invalid key instead
            else:
                res["q"] = k["invalid_val"]
        except Exception:
            return True
        return False
    except Exception:
        return False
