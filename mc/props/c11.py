"""
C11 - a load that returns means required fields are set and every validator passed.

One schema with required fields (with / without defaults; Str, Int, List, Dict) at depth 0-2, a recording
schema validator at every level, a recording field validator, feature flags at the root and on two nested
levels, a list of configurations whose items have their own required field and validator, and a config
type.  Every tree over {absent, None, empty, valid} per required leaf x every flag assignment x validator
inputs is loaded (tree and document routes) into every prior state; a reference evaluator over a plain
dict model decides which requirements the resulting state violates and in which (enabled / disabled)
configuration, hence whether the call must raise, may raise, or must return.
"""
import copy
import itertools
import json
import os

from mc import values as V

PROP = "C11"
LEVEL = "model_checking"
RULE = ("full product of per-leaf {absent, None, empty, valid} x flag assignments x validator inputs x route x prior state; "
        "non-trivial = at least one requirement or flag is touched by the tree (always, except the empty tree); distinct = "
        "distinct (tree, route, prior)")
ASSUMPTIONS = ["an explicit None/empty for a required field inside a disabled (sub)configuration may or may not be rejected (not demanded)",
               "requirements of a configuration below a disabled ancestor carry no demand either way",
               "items of configuration lists are judged when they are loaded or inserted"]

LOG = []


def build(env=False):
    import cincoconfig as cc
    # env: the schema sits under an environment prefix and every variable a field is bound to exists but is empty
    # (an empty variable supplies nothing, shadows nothing and exempts nothing from validation)
    s = cc.Schema(env="C11E") if env else cc.Schema()
    s.flag = cc.FeatureFlagField(default=True)
    s.rs = cc.StringField(required=True)
    s.ri = cc.IntField(required=True, default=5)
    s.re = cc.StringField(required=True, default="")          # the declared default does not satisfy the requirement
    s.x = cc.IntField()
    s.y = cc.IntField()
    s.fv = cc.IntField()
    s.lo = cc.IntField()
    s.hi = cc.IntField()
    s.fz = cc.IntField()                         # validators that reject a *falsy* value
    s.fl = cc.ListField(cc.IntField())
    s.free = cc.Schema(dynamic=True)        # a free-form section: no declared fields, only a validator
    s.tags = cc.ListField(cc.StringField(required=True, transform_strip=True))       # required applies to what is stored: the stripped text
    s.labels = cc.DictField(cc.StringField(), cc.StringField(required=True, transform_strip="-"))
    s.sub.enabled = cc.FeatureFlagField(default=True)
    s.sub.rl = cc.ListField(cc.IntField(), required=True)
    s.sub.rd = cc.DictField(required=True, default={"k": 1})
    s.sub.rle = cc.ListField(cc.IntField(), required=True, default=[])
    s.sub.a = cc.IntField()
    s.sub.deep.on = cc.FeatureFlagField(default=True)
    s.sub.deep.r = cc.StringField(required=True, min_len=0)          # a length bound that permits the empty string does not lift the requirement
    item = cc.Schema()
    item.r = cc.StringField(required=True, min_len=0, transform_strip=True)
    item.n = cc.IntField()
    s.items = cc.ListField(item)
    ts = cc.Schema()
    ts.r = cc.StringField(required=True, default="t")
    s.t = cc.make_type(ts, "T11")
    ti = cc.Schema()                    # the item schema once more, as a config type
    ti.r = cc.StringField(required=True, min_len=0, transform_strip=True)
    ti.n = cc.IntField()
    s.titems = cc.ListField(cc.make_type(ti, "TI11"))

    @cc.validator(ti)
    def v_titem(cfg):
        LOG.append(("item", id(cfg), cfg.n))
        if cfg.n == 13:
            raise AssertionError("unlucky")

    @cc.validator(s)
    def v_root(cfg):
        LOG.append(("root", id(cfg), cfg.x, cfg.y))
        if cfg.x is not None and cfg.y is not None and cfg.x >= cfg.y:
            raise ValueError("x must be < y")

    @cc.validator(s.sub)
    def v_sub(cfg):
        LOG.append(("sub", id(cfg), cfg.a))
        if cfg.a is not None and cfg.a > 10:
            raise KeyError("a too big")          # validators are user code: whatever they raise is a failed validation

    @cc.validator(s.sub.deep)
    def v_deep(cfg):
        LOG.append(("deep", id(cfg), cfg.r))

    @cc.validator(item)
    def v_item(cfg):
        LOG.append(("item", id(cfg), cfg.n))
        if cfg.n == 13:
            raise AssertionError("unlucky")

    @cc.validator(ts)
    def v_t(cfg):
        LOG.append(("t", id(cfg), cfg.r))

    @cc.validator(s.lo)
    def v_lo(cfg, value):
        # a field validator that looks at a sibling: it can only fail once the sibling has a value
        LOG.append(("lo", id(cfg), value))
        if value is not None and cfg.hi is not None and value > cfg.hi:
            raise ValueError("lo must not exceed hi")
        return value

    @cc.validator(s.fz)
    def v_fz(cfg, value):
        LOG.append(("fz", id(cfg), value))
        if value == 0:
            raise ZeroDivisionError("must not be zero")
        return value

    @cc.validator(s.fl)
    def v_fl(cfg, value):
        LOG.append(("fl", id(cfg), list(value)))
        if len(value) == 0:
            raise LookupError("must not be empty")
        return value

    @cc.validator(s.free)
    def v_free(cfg):
        LOG.append(("free", id(cfg), getattr(cfg, "forbidden", None)))
        if getattr(cfg, "forbidden", None):
            raise RuntimeError("forbidden is set")

    @cc.validator(s.fv)
    def v_fv(cfg, value):
        LOG.append(("fv", id(cfg), value))
        if value is not None and value % 2:
            raise ArithmeticError("must be even")
        return value
    if env:
        from mc import cfgworld as W
        for name in W.env_names(s):
            os.environ[name] = ""
    return s


# ---------------------------------------------------------------------------------------------
# plain-dict model
# ---------------------------------------------------------------------------------------------
def fresh_deep():
    return {"on": True, "r": None}


def fresh_sub():
    return {"enabled": True, "rl": None, "rd": {"k": 1}, "rle": [], "a": None, "deep": fresh_deep()}


def fresh():
    return {"flag": True, "rs": None, "ri": 5, "re": "", "x": None, "y": None, "fv": None, "sub": fresh_sub(), "items": None, "t": {"r": "t"}, "tags": None, "labels": None, "lo": None, "hi": None, "free": {}, "fz": None, "fl": None}


REQUIRED = {"": ["rs", "ri", "re"], "sub": ["rl", "rd", "rle"], "sub.deep": ["r"], "t": ["r"], "item": ["r"]}
EMPTY = ("", [], {})


def apply_tree(state, tree):
    """-> (new state, explicit_rejections [(node, key)])  -- nested maps replace the sub-configuration"""
    st = copy.deepcopy(state)
    rej = []
    for k, v in tree.items():
        if k == "sub":
            sub = fresh_sub()
            for kk, vv in v.items():
                if kk == "deep":
                    deep = fresh_deep()
                    for k3, v3 in vv.items():
                        if k3 == "r" and (v3 is None or v3 in EMPTY):
                            rej.append(("sub.deep", "r", v3))
                        else:
                            deep[k3] = v3
                    sub["deep"] = deep
                elif kk in ("rl", "rd", "rle") and (vv is None or vv in EMPTY):
                    rej.append(("sub", kk, vv))
                else:
                    sub[kk] = vv
            st["sub"] = sub
        elif k == "t":
            t = {"r": "t"}
            for kk, vv in v.items():
                if vv is None or vv in EMPTY:
                    rej.append(("t", kk, vv))
                else:
                    t[kk] = vv
            st["t"] = t
        elif k == "items":
            items = []
            for i, it in enumerate(v):
                d = {"r": None, "n": None}
                for kk, vv in it.items():
                    if kk == "r" and (vv is None or vv in EMPTY):
                        rej.append(("item", "r", vv))
                    else:
                        d[kk] = vv
                items.append(d)
            st["items"] = items
        elif k in ("rs", "ri", "re") and (v is None or v in EMPTY):
            rej.append(("", k, v))
        elif k == "tags" and v is not None and any(x is None or not x.strip() for x in v):
            rej.append(("", "tags", v))
        elif k == "labels" and v is not None and any(x is None or not x.strip("-") for x in v.values()):
            rej.append(("", "labels", v))
        elif k in ("tags", "labels") and v is not None:
            st[k] = [x.strip() for x in v] if k == "tags" else {a: b.strip("-") for a, b in v.items()}
        elif k == "fv" and v is not None and v % 2:
            rej.append(("", "fv", v))      # the field validator rejects the value when it is set
        elif k == "fz" and v == 0 and v is not None:
            rej.append(("", "fz", v))
        elif k == "fl" and v is not None and len(v) == 0:
            rej.append(("", "fl", v))
        elif k == "lo" and v is not None and st["hi"] is not None and v > st["hi"]:
            rej.append(("", "lo", v))      # the sibling is already there: rejected when it is set
        elif k == "free":
            st["free"] = dict(v)
        else:
            st[k] = v
    return st, rej


def node_status(st, tree_flags_for_rejection=None):
    """enabledness of each node: 'on' (itself and all ancestors enabled), 'shadowed' (itself enabled, an ancestor disabled), 'off'"""
    root = "on" if st["flag"] else "off"
    sub_self = bool(st["sub"]["enabled"])
    deep_self = bool(st["sub"]["deep"]["on"])
    sub = "off" if not sub_self else ("on" if root == "on" else "shadowed")
    deep = "off" if not deep_self else ("on" if sub == "on" else "shadowed")
    return {"": root, "sub": sub, "sub.deep": deep, "t": "on" if root == "on" else "shadowed", "item": "on" if root == "on" else "shadowed",
            "free": "on" if root == "on" else "shadowed"}


def violations(st, new_items=True):
    """[(node, what)] requirements the state violates (items only when they were loaded/inserted by this call)"""
    out = []
    for k in REQUIRED[""]:
        if st[k] is None or st[k] in EMPTY:
            out.append(("", k))
    if st["x"] is not None and st["y"] is not None and st["x"] >= st["y"]:
        out.append(("", "validator:x<y"))
    if st["fv"] is not None and st["fv"] % 2:
        out.append(("", "field-validator:fv"))
    if st["lo"] is not None and st["hi"] is not None and st["lo"] > st["hi"]:
        out.append(("", "field-validator:lo<=hi"))
    if st["free"].get("forbidden"):
        out.append(("free", "validator:free"))
    for k in REQUIRED["sub"]:
        if st["sub"][k] is None or st["sub"][k] in EMPTY:
            out.append(("sub", k))
    if st["sub"]["a"] is not None and st["sub"]["a"] > 10:
        out.append(("sub", "validator:a"))
    if st["sub"]["deep"]["r"] is None or st["sub"]["deep"]["r"] in EMPTY:
        out.append(("sub.deep", "r"))
    if st["t"]["r"] is None:
        out.append(("t", "r"))
    if new_items and st["items"]:
        for it in st["items"]:
            if it["r"] is None:
                out.append(("item", "r"))
            if it["n"] == 13:
                out.append(("item", "validator:n"))
    return out


def verdict(st, rej, new_items):
    """-> ('must-raise' | 'may-raise' | 'must-return', reason)"""
    status = node_status(st)
    must, may = [], []
    for node, what in violations(st, new_items):
        if node == "item":
            # items validate when loaded, whatever the enclosing flags say; judged only when root is enabled
            (must if status[""] == "on" else may).append((node, what))
        elif status[node] == "on":
            must.append((node, what))
        elif status[node] == "shadowed":
            may.append((node, what))
    for node, key, v in rej:
        if node == "item":
            (must if status[""] == "on" else may).append((node, "explicit-" + key))
        elif status[node] == "on":
            must.append((node, "explicit-" + key))
        else:
            may.append((node, "explicit-" + key))
    if must:
        return "must-raise", must
    if may:
        return "may-raise", may
    return "must-return", []


def read_state(cfg):
    """the same plain-dict view, read from the real configuration through the public API"""
    def plain(v):
        if isinstance(v, list):
            return list(v)
        if isinstance(v, dict):
            return dict(v)
        return v
    items = None
    if cfg.items is not None:
        items = [{"r": it.r, "n": it.n} for it in cfg.items]
    return {"fz": cfg.fz, "fl": plain(cfg.fl), "lo": cfg.lo, "hi": cfg.hi, "free": {k: v for k, v in cfg.free}, "tags": plain(cfg.tags), "labels": plain(cfg.labels), "flag": cfg.flag, "rs": cfg.rs, "ri": cfg.ri, "re": cfg.re, "x": cfg.x, "y": cfg.y, "fv": cfg.fv,
            "sub": {"enabled": cfg.sub.enabled, "rl": plain(cfg.sub.rl), "rd": plain(cfg.sub.rd), "rle": plain(cfg.sub.rle), "a": cfg.sub.a,
                    "deep": {"on": cfg.sub.deep.on, "r": cfg.sub.deep.r}},
            "items": items, "t": {"r": cfg.t.r}}


# ---------------------------------------------------------------------------------------------
# trees
# ---------------------------------------------------------------------------------------------
ABSENT = "<absent>"


def leaf_alphabets(tier):
    full = tier == "thorough"
    return {
        "rs": [ABSENT, None, "", "ok"] if full else [ABSENT, None, "ok"],
        "ri": [ABSENT, None, 7] if full else [ABSENT, 7],
        "rl": [ABSENT, None, [], [1]] if full else [ABSENT, [], [1]],
        "rd": [ABSENT, None, {}, {"q": 2}] if full else [ABSENT, {}],
        "r": [ABSENT, None, "", "deep"] if full else [ABSENT, "", "deep"],
        "re": [ABSENT, "given"],
        "rle": [ABSENT, [7]],
    }


def side_inputs(tier):
    """(x, y, fv, a, items, t) combinations: validator inputs and list items"""
    good, bad_r, bad_n = {"r": "i", "n": 1}, {"n": 2}, {"r": "j", "n": 13}
    base = [
        {},
        {"x": 1, "y": 2, "fv": 4, "a": 5, "items": [good], "t": {"r": "tv"}},
        {"x": 3, "y": 2},
        {"fv": 3},
        {"a": 50},
        {"items": [good, bad_r]},
        {"items": [bad_n]},
        {"items": []},
        {"t": {"r": None}},
        {"items": [{"r": "", "n": 1}]},
        {"fz": 0},
        {"fz": 3, "fl": []},
        {"lo": 10, "hi": 5},
        {"hi": 5, "lo": 10},
        {"lo": 1, "hi": 5, "free": {"anything": 1}},
        {"free": {"forbidden": 1}},
        {"tags": [" a ", "  "]},
        {"tags": [" a "], "labels": {"k": "--"}},
        {"tags": ["b"], "labels": {"k": "-v-"}},
    ]
    if tier == "thorough":
        base += [{"x": 2, "y": 2, "a": 10}, {"items": [bad_r]}, {"t": {}}, {"a": 11, "fv": 2}, {"items": [good, good, bad_n]}]
    return base


def make_tree(leaves, flags, side):
    t = {}
    if flags[0] is not ABSENT:
        t["flag"] = flags[0]
    for k in ("rs", "ri", "re"):
        if leaves[k] is not ABSENT:
            t[k] = leaves[k]
    for k in ("x", "y", "fv", "tags", "labels", "lo", "hi", "free", "fz", "fl"):
        if k in side:
            t[k] = copy.deepcopy(side[k])
    sub = {}
    if flags[1] is not ABSENT:
        sub["enabled"] = flags[1]
    for k in ("rl", "rd", "rle"):
        if leaves[k] is not ABSENT:
            sub[k] = leaves[k]
    if "a" in side:
        sub["a"] = side["a"]
    deep = {}
    if flags[2] is not ABSENT:
        deep["on"] = flags[2]
    if leaves["r"] is not ABSENT:
        deep["r"] = leaves["r"]
    if deep:
        sub["deep"] = deep
    if sub:
        t["sub"] = sub
    if "items" in side:
        t["items"] = copy.deepcopy(side["items"])
    if "t" in side:
        t["t"] = dict(side["t"])
    return t


VALID_TREE = {"rs": "v", "ri": 6, "re": "e", "sub": {"rl": [3], "rd": {"z": 1}, "rle": [1], "deep": {"r": "d"}}, "items": [{"r": "p", "n": 1}]}
PRIORS = ["fresh", "valid-loaded", "assigned", "reset", "root-off"]


def make_prior(schema, prior):
    import cincoconfig as cc
    cfg = schema()
    st = fresh()
    if prior == "fresh":
        return cfg, st
    if prior == "root-off":
        cfg.flag = False            # the root is disabled before the load; the tree may switch it on again
        cfg.sub.enabled = False
        st["flag"] = False
        st["sub"]["enabled"] = False
        return cfg, st
    if prior in ("valid-loaded", "reset"):
        cfg.load_tree(copy.deepcopy(VALID_TREE))
        st, _ = apply_tree(st, VALID_TREE)
        if prior == "reset":
            cc.reset_value(cfg, "rs")
            cc.reset_value(cfg, "sub.rl")
            st["rs"] = None
            st["sub"]["rl"] = None
        return cfg, st
    cfg.rs = "as"
    cfg.re = "ae"
    st["re"] = "ae"
    cfg.sub.rl = [9]
    cfg.sub.deep.r = "ad"
    cfg.sub.enabled = False
    st["rs"], st["sub"]["rl"], st["sub"]["deep"]["r"], st["sub"]["enabled"] = "as", [9], "ad", False
    return cfg, st


def bounds(tier):
    la = leaf_alphabets(tier)
    return {"leaf_alphabets": {k: len(v) for k, v in la.items()}, "flag_assignments": 27, "side_inputs": len(side_inputs(tier)),
            "routes": ["load_tree", "loads/json"] + (["loads/yaml", "loads/xml"] if tier == "thorough" else []), "priors": PRIORS}


def jobs(tier):
    out = []
    flagsets = list(itertools.product([ABSENT, True, False], repeat=3))
    for fi, flags in enumerate(flagsets):
        out.append({"name": "flags/%02d" % fi, "flags": list(flags), "tier": tier, "kind": "load"})
    out.append({"name": "inserts", "kind": "inserts", "tier": tier})
    out.append({"name": "growth", "kind": "growth", "tier": tier})
    out.append({"name": "redeclared-flag", "kind": "redeclared", "tier": tier})
    out.append({"name": "any-typed-dict", "kind": "anydict", "tier": tier})
    return out


def _case(job, only):
    return {"jobparams_full": {k: v for k, v in job.items() if k not in ("single", "only")}, "only": only, "job": job["name"]}


def run_job(job, ctx):
    single = job.get("single")
    if single:
        job = dict(single["jobparams_full"]); job["only"] = single["only"]
    if job["kind"] == "inserts":
        _inserts(job, ctx)
        return
    if job["kind"] == "growth":
        _growth(job, ctx)
        return
    if job["kind"] == "redeclared":
        _redeclared(job, ctx)
        return
    if job["kind"] == "anydict":
        _anydict(job, ctx)
        return
    tier = job["tier"]
    flags = [ABSENT if f == ABSENT else f for f in job["flags"]]
    la = leaf_alphabets(tier)
    sides = side_inputs(tier)
    routes = bounds(tier)["routes"]
    only = job.get("only")
    schema = build(env=int(job["name"].split("/")[1]) % 2 == 1)       # every other flag assignment under bound, empty variables
    n = 0
    LK = ("rs", "ri", "rl", "rd", "r", "re", "rle")
    for cn, combo in enumerate(itertools.product(*[la[k] for k in LK])):
        leaves = dict(zip(LK, combo))
        for si, side in enumerate(sides):
            if tier != "thorough" and si >= 10 and cn % 4 and only is None:
                continue        # quick: the later side inputs (item-level fields, sibling validators, free section) meet every 4th leaf combination
            tree = make_tree(leaves, flags, side)
            for prior in PRIORS:
                for route in (routes if prior == "fresh" else routes[:1]):
                    key = [list(map(_k, combo)), si, prior, route]
                    if only is not None and only != key:
                        continue
                    n += 1
                    check_load(ctx, job, schema, tree, prior, route, key)
    ctx.states += n
    ctx.sample({"flags(root,sub,deep)": [str(f) for f in flags], "example_tree": make_tree(dict(zip(("rs", "ri", "rl", "rd", "r", "re", "rle"), [None, 7, [], ABSENT, "deep", "given", ABSENT])), flags, sides[1])})


def _k(v):
    return v if v is not ABSENT else ABSENT


def check_load(ctx, job, schema, tree, prior, route, key):
    import cincoconfig as cc
    cfg, st0 = make_prior(schema, prior)
    seen_tree = tree
    if route != "load_tree":
        # the loader sees the keys in the order the document has them (YAML writes maps sorted): model that order
        fmt0 = route.split("/")[1]
        seen_tree = cc.ConfigFormat.get(fmt0).loads(None, cc.ConfigFormat.get(fmt0).dumps(None, tree))
    model, rej = apply_tree(st0, seen_tree)
    want, reasons = verdict(model, rej, new_items="items" in tree)
    del LOG[:]
    ctx.transitions += 1
    try:
        if route == "load_tree":
            cfg.load_tree(copy.deepcopy(tree))
        else:
            fmt = route.split("/")[1]
            cfg.loads(cc.ConfigFormat.get(fmt).dumps(None, tree), fmt)
        raised = None
    except Exception as exc:  # noqa
        raised = exc
    log = list(LOG)
    ctx.case((json.dumps(tree, sort_keys=True), prior, route), "%s:%s" % (want, "raised" if raised else "returned"), True)
    fp = "C11|load|%s|" % route
    case = _case(job, key)

    def bad(what, msg):
        ctx.violation(fp + what, "prior %s, %s(%s): %s" % (prior, route, json.dumps(tree), msg), case, size=len(json.dumps(tree)))
    if raised is not None and not isinstance(raised, cc.ValidationError):
        bad("wrong-exception-" + type(raised).__name__, "raised %r, not a ValidationError" % (raised,))
        return
    if want == "must-raise" and raised is None:
        bad("returned-despite|" + _why(reasons), "returned although %s" % reasons)
        return
    if want == "must-return" and raised is not None:
        bad("spurious-raise|" + _shape(model), "raised %s although no requirement of an enabled configuration is violated" % (raised,))
        return
    if raised is None:
        # soundness on the *real* resulting state, read through the public API
        real = read_state(cfg)
        status = node_status(real)
        left = [(n, w) for n, w in violations(real, new_items="items" in tree) if (status[n] == "on" if n != "item" else status[""] == "on")]
        if left:
            bad("state-violates|" + _why(left), "returned, but the resulting configuration violates %s" % left)
        # every validator of every enabled configuration ran during the call, on the final data
        ran = {e[0] for e in log}
        need = []
        if status[""] == "on":
            need.append("root")
            need.append("t")
            if status["sub"] == "on":
                need.append("sub")
                if status["sub.deep"] == "on":
                    need.append("deep")
        if status[""] == "on":
            need.append("free")
        for nname in need:
            if nname not in ran:
                bad("validator-not-run|" + nname, "returned without running the %s validator (ran: %s)" % (nname, sorted(ran)))
        if status[""] == "on":
            last = [e for e in log if e[0] == "root"]
            if last and (last[-1][2], last[-1][3]) != (real["x"], real["y"]):
                bad("validator-stale-data", "the root validator last saw x,y=%s but the final values are %s,%s" % (last[-1][2:], real["x"], real["y"]))
            if status["sub"] == "on":
                lasts = [e for e in log if e[0] == "sub" and e[1] == id(cfg.sub)]
                if not lasts or lasts[-1][2] != real["sub"]["a"]:
                    bad("validator-stale-data|sub", "the sub validator did not run on the final sub-configuration")
        if "items" in tree and tree["items"] and status[""] == "on":
            if len([e for e in log if e[0] == "item"]) < len(tree["items"]):
                bad("validator-not-run|item", "item validators ran %d times for %d loaded items" % (len([e for e in log if e[0] == "item"]), len(tree["items"])))
        if "fv" in tree and "fv" not in ran:
            bad("validator-not-run|fv", "the field validator did not run for the loaded value")
    # explicit validation agrees with the collecting mode, on whatever state we are in now
    _explicit(ctx, cfg, bad)
    ctx.traces += 1


def _explicit(ctx, cfg, bad):
    import cincoconfig as cc
    try:
        cfg.validate()
        r = None
    except Exception as exc:  # noqa
        r = exc
    try:
        errs = cfg.validate(collect_errors=True)
    except Exception as exc:  # noqa
        bad("collect-raises", "validate(collect_errors=True) raised %r" % (exc,))
        return
    if (r is not None) != bool(errs):
        bad("collect-disagrees", "validate() %s but collect_errors returned %d errors" % ("raised" if r else "returned", len(errs)))
    real = read_state(cfg)
    status = node_status(real)
    left = [(n, w) for n, w in violations(real, new_items=False) if status[n] == "on"]
    anyv = [(n, w) for n, w in violations(real, new_items=False) if status[n] in ("on", "shadowed")]
    if r is None and left:
        bad("validate-returned-despite|" + _why(left), "validate() returned although %s" % left)
    if r is not None and not anyv:
        bad("validate-spurious", "validate() raised %s although nothing is violated" % (r,))
    if r is not None and not isinstance(r, cc.ValidationError):
        bad("validate-wrong-exception", "validate() raised %s" % type(r).__name__)
    for e in errs:
        if not isinstance(e, cc.ValidationError):
            bad("collect-wrong-type", "collect_errors returned a %s" % type(e).__name__)


def _why(reasons):
    return ",".join(sorted({"%s:%s" % (n or "root", w) for n, w in reasons}))[:80]


def _shape(model):
    s = node_status(model)
    return "root=%s,sub=%s,deep=%s" % (s[""], s["sub"], s["sub.deep"])


def _growth(job, ctx):
    """the schema gains a required field (with a recording validator) after the configuration object was built, at the
    root / one / two levels down / in the item schema; a load or explicit validation on the old object and on a new one
    may only return when that field has a value and its validator ran"""
    import cincoconfig as cc
    only = job.get("only")
    for where in ("", "sub", "sub.deep", "items[]"):
        for given in (ABSENT, None, "", "late-value"):
            for obj in ("old", "new"):
                for call in ("load_tree", "loads/json", "validate", "collect"):
                    ident = [where, given, obj, call]
                    if only is not None and only != ident:
                        continue
                    schema = build()
                    old = schema()
                    old.load_tree(copy.deepcopy(VALID_TREE))
                    target = schema
                    if where == "items[]":
                        target = schema._fields["items"].field
                    else:
                        for part in [x for x in where.split(".") if x]:
                            target = getattr(target, part)
                    target.late = cc.StringField(required=True)
                    seen = []

                    @cc.validator(target.late)
                    def v_late(cfg, value, seen=seen):
                        seen.append(value)
                        return value
                    cfg = old if obj == "old" else schema()
                    tree = copy.deepcopy(VALID_TREE)
                    node = tree
                    if where == "items[]":
                        node = tree["items"][0]
                    else:
                        for part in [x for x in where.split(".") if x]:
                            node = node[part]
                    if given is not ABSENT:
                        node["late"] = given
                    if call in ("validate", "collect") and (obj == "new" or where == "items[]"):
                        continue          # items are held to the rule when they are loaded or inserted, not by a later validate()
                    ctx.transitions += 1
                    errs = None
                    try:
                        if call == "load_tree":
                            cfg.load_tree(tree)
                        elif call == "loads/json":
                            cfg.loads(json.dumps(tree), "json")
                        elif call == "validate":
                            cfg.validate()
                        else:
                            errs = cfg.validate(collect_errors=True)
                        raised = None
                    except Exception as exc:  # noqa
                        raised = exc
                    returned = raised is None and not errs
                    ctx.case(("growth", where, repr(given), obj, call), "growth:%s" % ("returned" if returned else "raised"), True)
                    if not returned:
                        continue
                    case = _case(job, ident)
                    holder = cfg
                    try:
                        if where == "items[]":
                            holder = cfg.items[0]
                        else:
                            for part in [x for x in where.split(".") if x]:
                                holder = getattr(holder, part)
                        value = holder.late
                    except Exception as exc:  # noqa
                        value = None
                    if not value:
                        ctx.violation("C11|growth|%s|%s|returned-without-value" % (where or "root", call),
                                      "the schema gained a required field %s.late after the configuration was built; %s on the %s object (late=%r in the tree) returned although the field has no value"
                                      % (where or "<root>", call, obj, given), case)
                    elif call.startswith("load") and given == "late-value" and "late-value" not in seen:
                        ctx.violation("C11|growth|%s|%s|validator-not-run" % (where or "root", call),
                                      "%s on the %s object returned without running the late field's validator" % (call, obj), case)
    ctx.sample({"growth": ["", "sub", "sub.deep", "items[]"]})


def _redeclared(job, ctx):
    """a key first declared as a feature flag is declared again as an ordinary boolean (at the root / in a sub-schema / in
    an item schema) before the configuration is built: nothing is a feature flag there any more, so a false value under
    that key exempts nothing - required fields and schema validators are enforced"""
    import cincoconfig as cc
    only = job.get("only")
    for where in ("root", "sub", "items[]"):
        for how in ("attr", "item", "setattr-twice"):
            for value in (False, None, ABSENT):
                for call in ("load_tree", "loads/json", "validate", "collect", "append"):
                    ident = [where, how, value, call]
                    if only is not None and only != ident:
                        continue
                    if (call == "append") != (where == "items[]") and call == "append":
                        continue
                    if where == "items[]" and call in ("validate", "collect"):
                        continue
                    s = cc.Schema()
                    s.keep = cc.IntField(default=1)
                    item = cc.Schema()
                    s.items = cc.ListField(item)
                    target = {"root": s, "sub": s.sub, "items[]": item}[where]
                    target.enabled = cc.FeatureFlagField(default=False)
                    if how == "attr":
                        target.enabled = cc.BoolField(default=False)
                    elif how == "item":
                        target["enabled"] = cc.BoolField(default=False)
                    else:
                        target.enabled = cc.FeatureFlagField(default=True)
                        target.enabled = cc.BoolField(default=False)
                    target.r = cc.StringField(required=True)
                    ran = []

                    @cc.validator(target)
                    def v_schema(cfg, ran=ran):
                        ran.append(1)
                    node = {} if value is ABSENT else {"enabled": value}
                    tree = {"keep": 2}
                    if where == "root":
                        tree.update(node)
                    elif where == "sub":
                        tree["sub"] = node
                    else:
                        tree["items"] = [node]
                    cfg = s()
                    ctx.transitions += 1
                    errs = None
                    try:
                        if call == "load_tree":
                            cfg.load_tree(tree)
                        elif call == "loads/json":
                            cfg.loads(json.dumps(tree), "json")
                        elif call == "append":
                            cfg.items = []
                            cfg.items.append(node)
                        else:
                            if value is not ABSENT:
                                (cfg if where == "root" else cfg.sub).enabled = value
                            errs = cfg.validate(collect_errors=True) if call == "collect" else cfg.validate()
                        raised = None
                    except Exception as exc:  # noqa
                        raised = exc
                    returned = raised is None and not errs
                    ctx.case(("redeclared", where, how, repr(value), call), "redeclared:%s" % ("returned" if returned else "raised"), True)
                    if returned:
                        ctx.violation("C11|redeclared|%s|%s|returned-with-required-unset" % (where, call),
                                      "%s: `enabled` was re-declared as a plain boolean (%s), value %r: %s returned although the required field r has no value (schema validator ran %d times)"
                                      % (where, how, value, call, len(ran)), _case(job, ident))
    ctx.traces += 1


def _anydict(job, ctx):
    """typed dicts whose key or value field is an AnyField carrying `required` or a validator: the entries are held to
    that field like to any other (a load that returns means every entry has a value and the validator saw it)"""
    import cincoconfig as cc
    only = job.get("only")
    for side in ("value", "key"):
        for where in ("root", "sub", "items[]"):
            for call in ("load_tree", "loads/json", "loads/yaml", "setitem", "update", "assign"):
                for entry in ("missing", "rejected", "fine"):
                    ident = [side, where, call, entry]
                    if only is not None and only != ident:
                        continue
                    if side == "key" and entry == "missing":
                        continue
                    seen = []

                    def check(cfg, value, seen=seen):
                        seen.append(value)
                        if value == "REJECT":
                            raise ValueError("rejected by the field validator")
                        return value
                    anyf = cc.AnyField(required=True, validator=check)
                    s = cc.Schema()
                    item = cc.Schema()
                    s.items = cc.ListField(item)
                    target = {"root": s, "sub": s.sub, "items[]": item}[where]
                    target.d = cc.DictField(cc.StringField(), anyf) if side == "value" else cc.DictField(anyf, cc.IntField())
                    if side == "value":
                        d = {"a": 1, "b": {"missing": None, "rejected": "REJECT", "fine": "v"}[entry]}
                    else:
                        d = {"a": 1, {"rejected": "REJECT", "fine": "b"}[entry]: 2}
                    node = {"d": d}
                    tree = node if where == "root" else ({"sub": node} if where == "sub" else {"items": [node]})
                    cfg = s()
                    ctx.transitions += 1
                    try:
                        if call == "load_tree":
                            cfg.load_tree(tree)
                        elif call.startswith("loads/"):
                            fmt = call.split("/")[1]
                            cfg.loads(cc.ConfigFormat.get(fmt).dumps(None, tree), fmt)
                        else:
                            if where == "items[]":
                                cfg.items = [{}]
                            holder = cfg if where == "root" else (cfg.sub if where == "sub" else cfg.items[0])
                            if call == "assign":
                                holder.d = d
                            else:
                                holder.d = {}
                                if call == "update":
                                    holder.d.update(d)
                                else:
                                    for k, v in d.items():
                                        holder.d[k] = v
                        raised = None
                    except Exception as exc:  # noqa
                        raised = exc
                    ctx.case(("anydict", side, where, call, entry), "anydict:%s" % ("returned" if raised is None else "raised"), True)
                    case = _case(job, ident)
                    fp = "C11|any-typed-dict|%s|%s|%s|" % (side, where, "load" if call.startswith("load") else call)
                    if entry != "fine" and raised is None:
                        ctx.violation(fp + "returned-despite-" + entry, "%s with a %s %s (%s field: AnyField(required=True, validator=...)) returned normally" % (call, entry, side, side), case)
                    elif entry == "fine":
                        if raised is not None:
                            ctx.violation(fp + "rejects-valid", "%s of valid entries raised %r" % (call, raised), case)
                        elif not all(x in seen for x in (d.values() if side == "value" else d.keys())):
                            ctx.violation(fp + "validator-not-run", "%s returned but the %s field's validator saw only %r of %r" % (call, side, seen, d), case)
    ctx.traces += 1


class _ListAs:
    """view of a configuration in which `.items` names another of its list fields"""

    def __init__(self, cfg, key):
        object.__setattr__(self, "real", cfg)
        object.__setattr__(self, "key", key)

    def __getattr__(self, name):
        return getattr(self.real, self.key if name == "items" else name)

    def __setattr__(self, name, value):
        setattr(self.real, self.key if name == "items" else name, value)


def _inserts(job, ctx):
    """items of configuration lists are held to the rule when inserted: append / insert / index assignment / list assignment"""
    import cincoconfig as cc
    only = job.get("only")
    schema = build()
    good, bad_r, bad_n, none_r = {"r": "i", "n": 1}, {"n": 2}, {"r": "j", "n": 13}, {"r": None}
    for how in ("append-dict", "append-config", "insert-dict", "setitem-dict", "assign-list", "iadd", "extend", "setslice",
                "type:append-dict", "type:insert-dict", "type:setitem-dict", "type:assign-list", "type:iadd", "type:extend", "type:setslice", "type:load_tree", "type:loads"):
        for name, item, ok in (("good", good, True), ("missing-r", bad_r, False), ("validator", bad_n, False), ("none-r", none_r, False), ("empty-map", {}, False)):
            for rootflag in (True, False):
                if only is not None and only != [how, name, rootflag]:
                    continue
                if name == "empty-map" and not how.startswith("type:"):
                    continue
                cfg = schema()
                cfg.load_tree(copy.deepcopy(VALID_TREE))
                cfg.flag = rootflag
                if how.startswith("type:"):
                    # the same list operations on a list whose item type is a config type
                    cfg.titems = [dict(good)]
                    how0, how = how, how.split(":")[1]
                    cfg_real, cfg = cfg, _ListAs(cfg, "titems")
                else:
                    how0 = how
                del LOG[:]
                ctx.transitions += 1
                val = dict(item)
                try:
                    if how == "append-dict":
                        cfg.items.append(val)
                    elif how == "append-config":
                        c = schema._fields["items"].field()
                        for k, v in val.items():
                            c._data[k] = v     # a configuration prepared elsewhere, not yet validated
                        cfg.items.append(c)
                    elif how == "insert-dict":
                        cfg.items.insert(0, val)
                    elif how == "setitem-dict":
                        cfg.items[0] = val
                    elif how == "assign-list":
                        cfg.items = [dict(good), val]
                    elif how == "iadd":
                        cfg.items += [val]
                    elif how == "extend":
                        cfg.items.extend([dict(good), val])
                    elif how == "setslice":
                        cfg.items[0:1] = [val]
                    elif how == "load_tree":
                        cfg.real.load_tree({"titems": [dict(good), val]})
                    elif how == "loads":
                        cfg.real.loads(json.dumps({"titems": [val]}), "json")
                    raised = None
                except Exception as exc:  # noqa
                    raised = exc
                how = how0
                ctx.case((how, name, rootflag), "insert:%s:%s" % ("ok" if ok else "bad", "raised" if raised else "returned"), True)
                case = _case(job, [how, name, rootflag])
                if ok and raised is not None:
                    ctx.violation("C11|insert|%s|spurious-raise" % how, "%s of a valid item raised %r" % (how, raised), case)
                if not ok and raised is None:
                    ctx.violation("C11|insert|%s|%s|accepted" % (how, name), "%s accepted an item that violates its own requirements (%s); items now %s"
                                  % (how, name, [(getattr(i, "r", "<not a configuration: %r>" % (i,)), getattr(i, "n", None)) for i in cfg.items]), case)
                if raised is None and any(not isinstance(i, cc.Config) for i in cfg.items):
                    ctx.violation("C11|insert|%s|raw-item-stored" % how, "%s stored an item that is not a configuration: %r" % (how, list(cfg.items)), case)
                if ok and raised is None and "item" not in {e[0] for e in LOG}:
                    ctx.violation("C11|insert|%s|validator-not-run" % how, "%s did not run the item validator" % how, case)
    # sequences on one item object and one list: every (re-)insertion validates the item again
    for seq in ("append-rejected-twice", "invalidate-then-append-pop", "invalidate-then-setitem-self", "invalidate-then-insert", "invalidate-then-slice",
                "invalidate-then-iadd", "invalidate-then-assign-list"):
        if only is not None and only != ["seq", seq]:
            continue
        cfg = schema()
        cfg.load_tree(copy.deepcopy(VALID_TREE))
        item_schema = schema._fields["items"].field
        ctx.transitions += 1
        outcome = None
        try:
            if seq == "append-rejected-twice":
                it = item_schema()
                it.n = 2                      # r (required) never set
                first = None
                try:
                    cfg.items.append(it)
                except Exception as exc:  # noqa
                    first = exc
                if first is None:
                    outcome = "first append of an item without its required field was accepted"
                else:
                    try:
                        cfg.items.append(it)
                        outcome = "the retried append of the rejected item was accepted"
                    except Exception:  # noqa
                        pass
            else:
                it = cfg.items[0]
                it.n = 13                     # field-valid, but the item's schema validator refuses it
                try:
                    if seq == "invalidate-then-append-pop":
                        cfg.items.append(cfg.items.pop())
                    elif seq == "invalidate-then-setitem-self":
                        cfg.items[0] = cfg.items[0]
                    elif seq == "invalidate-then-insert":
                        cfg.items.insert(0, cfg.items.pop())
                    elif seq == "invalidate-then-slice":
                        cfg.items[0:1] = [cfg.items[0]]
                    elif seq == "invalidate-then-iadd":
                        x = cfg.items.pop()
                        cfg.items += [x]
                    else:
                        cfg.items = [cfg.items[0]]
                    outcome = "an item its own validator refuses was accepted by the re-insertion"
                except Exception:  # noqa
                    pass
        except Exception as exc:  # noqa
            outcome = "sequence raised %r" % (exc,)
        ctx.case(("seq", seq), "insert-seq:%s:%s" % (seq, "bad" if outcome else "ok"), True)
        if outcome:
            ctx.violation("C11|insert-seq|%s" % seq, "%s: %s" % (seq, outcome), _case(job, ["seq", seq]))
    ctx.states += 1
    ctx.traces += 1
