"""
C15 - every rejection is a validation error that names the offending field's full path.

Exhaustive over: leaf kind x every declared leaf position of a depth-3 schema (nested schemas, a config
type, lists of schemas with a sub-schema inside the item, lists of config types incl. equal items, typed
dict at the root / nested / inside a list item, typed scalar list, friendly names) x every rejected value
(the kind's own invalid values and every wrongly typed value the reference rejects) x every route
(attribute on the owning configuration, dotted path from the root, constructor keyword, map assigned to a
sub-configuration, tree load, document load in each format able to carry the value) x {default-built
configuration, configuration whose sub-configurations were created by a load}; plus shape errors.
"""
import json
import os

from mc import cfgworld as W
from mc import values as V
from mc.ref import fields as R
from mc.values import F, Y, T, D, OBJ

PROP = "C15"
LEVEL = "model_checking"
RULE = ("full product leaf kind x position x rejected value x route x prior state; non-trivial = every case (each is a "
        "rejection); distinct = distinct (kind, position, value, route, prior)")
ASSUMPTIONS = ["reference validators decide which values are rejected", "typed scalar list items are only required to name the list",
               "shape errors (a scalar where a configuration is expected, etc.) must name the field; an item index is optional for them"]

WRONG = [None, True, 0, 2 ** 70, F(1.5), F("inf"), F("nan"), "", "a", Y(b"a"), [], [1], T(1), D(), D(("a", 1)), OBJ]
KINDS = ["int09", "str-regex-req", "bool", "net", "bytes", "challenge", "float", "host", "port", "url", "ipv4", "loglevel", "str-choice"]
FORMATS = ["json", "yaml", "xml", "bson", "pickle"]


def build(kind):
    """-> (schema, valid value in normal form)"""
    import cincoconfig as cc
    spec, valid, invalid = W.catalogue()[kind]

    def leaf(name=None):
        f = R.mk_field(spec)
        if name:
            f._name = name
        return f
    s = cc.Schema()
    s.a = leaf()
    s.sub.c = leaf()
    s.sub.deep.e = leaf("Deep E")
    s.sub.d = cc.DictField(cc.StringField(), leaf())
    tsch = cc.Schema()
    tsch.c = leaf()
    CT = cc.make_type(tsch, "CT")
    s.t = CT
    item = cc.Schema()
    item.c = leaf()
    item.r = cc.StringField(required=True, default="r")
    item.inner.e = leaf("Inner E")
    item.d = cc.DictField(cc.StringField(), leaf())
    s.proto = item                        # the item schema is also mounted as an ordinary section (it then carries a key of its own)
    s.items = cc.ListField(item, name="Item List")          # a display name on the list field is not part of any path
    s.backups = cc.ListField(item)
    s.ad = cc.DictField(value_field=leaf())       # any key, typed value
    s.ts = cc.ListField(CT, name="Typed Items")
    s.d = cc.DictField(cc.StringField(), leaf(), name="Typed D")
    s.l = cc.ListField(leaf())
    s.w = cc.IntField(default=1)
    return s, valid[0]


def rejected_values(kind):
    spec, valid, invalid = W.catalogue()[kind]
    fs = {"k": spec["k"], "o": {a: b for a, b in spec.get("o", {}).items() if a not in ("default",)}}
    out = []
    for v in list(invalid) + WRONG:
        if R.ref_validate(fs, V.dec(v))[0] == "rej" and v not in out:
            out.append(v)
    return out


def jsonlike(v):
    d = V.dec(v)

    def ok(x):
        if x is None or isinstance(x, (bool, int, float, str)):
            return not (isinstance(x, int) and abs(x) > 2 ** 62)
        if isinstance(x, list):
            return all(ok(y) for y in x)
        if isinstance(x, dict):
            return all(isinstance(k, str) and ok(y) for k, y in x.items())
        return False
    return ok(d)


# positions: (id, expected path, friendly name, how to reach the owner, key)
def positions():
    return [
        ("a", "a", None), ("sub.c", "sub.c", None), ("sub.deep.e", "sub.deep.e", "Deep E"), ("t.c", "t.c", None),
        ("items[0].c", "items[0].c", None), ("items[1].c", "items[1].c", None), ("items[1].inner.e", "items[1].inner.e", "Inner E"),
        ("ts[0].c", "ts[0].c", None), ("ts[1].c", "ts[1].c", None),
        ("d[k]", "d[k]", "Typed D"), ("sub.d[k]", "sub.d[k]", None), ("items[1].d[k]", "items[1].d[k]", None),
        ("l", "l", None),
    ]


def valid_tree(ok):
    item = {"c": ok, "r": "x", "inner": {"e": ok}, "d": {"k": ok}}
    return {"a": ok, "sub": {"c": ok, "deep": {"e": ok}, "d": {"k": ok}}, "t": {"c": ok}, "items": [dict(item), json.loads(json.dumps(item)) if _j(ok) else dict(item)],
            "ts": [{"c": ok}, {"c": ok}], "d": {"k": ok}, "l": [ok]}


def _j(x):
    try:
        json.dumps(x)
        return True
    except TypeError:
        return False


def tree_with(pos, ok, bad):
    """a tree that is valid everywhere except at `pos`"""
    t = valid_tree(ok)
    if pos == "a":
        t["a"] = bad
    elif pos == "sub.c":
        t["sub"]["c"] = bad
    elif pos == "sub.deep.e":
        t["sub"]["deep"]["e"] = bad
    elif pos == "t.c":
        t["t"]["c"] = bad
    elif pos.startswith("items["):
        i = int(pos[6])
        rest = pos.split("].", 1)[1]
        if rest == "c":
            t["items"][i]["c"] = bad
        elif rest == "inner.e":
            t["items"][i]["inner"]["e"] = bad
        else:
            t["items"][i]["d"]["k"] = bad
    elif pos.startswith("ts["):
        t["ts"][int(pos[3])]["c"] = bad
    elif pos == "d[k]":
        t["d"]["k"] = bad
    elif pos == "sub.d[k]":
        t["sub"]["d"]["k"] = bad
    elif pos == "l":
        t["l"] = [ok, bad]
    return t


def subtree(tree, pos):
    """(top-level key, value) of the part of the tree that contains pos"""
    top = pos.split(".")[0].split("[")[0]
    return top, tree[top]


def routes_for(pos):
    r = ["ctor", "load_tree", "loads", "top-assign"]
    if pos in ("a", "sub.c", "sub.deep.e", "t.c", "l"):
        r += ["attr", "dotted"]
    if pos.startswith("items[") or pos.startswith("ts["):
        r += ["attr-item"]
    if pos.endswith("[k]"):
        r += ["attr-dict"]
    return r


def bounds(tier):
    return {"kinds": KINDS if tier == "thorough" else ["int09", "str-regex-req", "bool", "net", "bytes", "challenge", "host"],
            "positions": [p[0] for p in positions()], "formats": FORMATS if tier == "thorough" else ["json", "xml"],
            "priors": ["default", "loaded"]}


def jobs(tier):
    b = bounds(tier)
    out = [{"name": "paths/%s" % k, "kind": "paths", "leaf": k, "formats": b["formats"]} for k in b["kinds"]]
    out.append({"name": "shape-errors", "kind": "shapes", "formats": b["formats"]})
    for k in b["kinds"][:3] if tier == "quick" else b["kinds"]:
        out.append({"name": "moves/%s" % k, "kind": "moves", "leaf": k})
    for fmt in b["formats"]:
        out.append({"name": "validators/%s" % fmt, "kind": "validators", "fmt": fmt})
    out.append({"name": "nested-containers", "kind": "nested", "formats": b["formats"]})
    out.append({"name": "include-mismatch", "kind": "incmismatch", "formats": b["formats"]})
    return out


def run_job(job, ctx):
    single = job.get("single")
    if single:
        job = dict(single["jobparams_full"]); job["only"] = single["only"]
    if job["kind"] == "paths":
        _paths(job, ctx)
    elif job["kind"] == "moves":
        _moves(job, ctx)
    elif job["kind"] == "validators":
        _validators(job, ctx)
    elif job["kind"] == "nested":
        _nested(job, ctx)
    elif job["kind"] == "incmismatch":
        _include_mismatch(job, ctx)
    else:
        _shapes(job, ctx)


def _case(job, only):
    return {"jobparams_full": {k: v for k, v in job.items() if k not in ("single", "only")}, "only": only, "job": job["name"]}


def _nested(job, ctx):
    """a list of configurations that sits inside another container value (a typed dict entry, an item of a list of
    lists), at the root and in a sub-schema: the rejected field is  <container>[key-or-index][item index].<field>"""
    import cincoconfig as cc
    only = job.get("only")
    wraps = [("dict-of-list", "d", {"d": {"k": [{"c": 1}, {"c": 10}]}}, "d[k][1].c"),
             ("list-of-list", "ll", {"ll": [[{"c": 1}], [{"c": 1}, {"c": 10}]]}, "ll[1][1].c"),
             ("sub-dict-of-list", "sub", {"sub": {"d": {"k": [{"c": 10}]}}}, "sub.d[k][0].c"),
             ("sub-list-of-list", "sub", {"sub": {"ll": [[{"c": 10}]]}}, "sub.ll[0][0].c"),
             # typed containers of typed containers of scalars
             ("dict-of-dict", "dd", {"dd": {"ann": {"cpu": 1}, "bob": {"cpu": 10}}}, "dd[bob][cpu]"),
             ("dict-of-intlist", "dl", {"dl": {"bob": [1, 10]}}, "dl[bob][1]"),
             ("list-of-dict", "ld", {"ld": [{"a": 1}, {"cpu": 10}]}, "ld[1][cpu]"),
             ("sub-dict-of-dict", "sub", {"sub": {"dd": {"bob": {"cpu": 10}}}}, "sub.dd[bob][cpu]")]
    # (the full path is known finding N10; what the pinned code does deliver for containers held by a typed dict - the declared
    # field and the outer key - is demanded separately, so that losing those as well is still reported)
    outer = {"dict-of-list": "d[k]", "sub-dict-of-list": "sub.d[k]", "dict-of-dict": "dd[bob]", "dict-of-intlist": "dl[bob]", "sub-dict-of-dict": "sub.dd[bob]"}
    for wname, top, tree, want in wraps:
        for route in ["load_tree", "ctor", "assign"] + ["loads/" + f for f in job["formats"]]:
            ident = [wname, route]
            if only is not None and only != ident:
                continue
            item = cc.Schema()
            item.c = cc.IntField(max=9)
            s = cc.Schema()
            for sch in (s, s.sub):
                sch.d = cc.DictField(cc.StringField(), cc.ListField(item))
                sch.ll = cc.ListField(cc.ListField(item))
                sch.dd = cc.DictField(cc.StringField(), cc.DictField(cc.StringField(), cc.IntField(max=9)))
                sch.dl = cc.DictField(cc.StringField(), cc.ListField(cc.IntField(max=9)))
                sch.ld = cc.ListField(cc.DictField(cc.StringField(), cc.IntField(max=9)))
            cfg = s()
            ctx.transitions += 1
            if route == "load_tree":
                exc = attempt(lambda: cfg.load_tree(json.loads(json.dumps(tree))))
            elif route == "ctor":
                exc = attempt(lambda: s(**json.loads(json.dumps(tree))))
            elif route == "assign":
                exc = attempt(lambda: setattr(cfg, top, json.loads(json.dumps(tree))[top]))
            else:
                fmt = route.split("/")[1]
                exc = attempt(lambda: cfg.loads(cc.ConfigFormat.get(fmt).dumps(None, tree), fmt))
            ctx.case(("nested", wname, route), "nested:%s:%s" % (route.split("/")[0], type(exc).__name__ if exc else "accepted"), True)
            judge(ctx, job, ident, "C15|nested-containers|%s|%s" % (wname, route.split("/")[0]), "a list of configurations inside %s, value 10 for c (max 9) via %s" % (wname, route), exc, want, None)
            if wname in outer and isinstance(exc, cc.ValidationError):
                try:
                    rp = exc.ref_path or ""
                except Exception:  # noqa
                    rp = ""
                if not rp.startswith(outer[wname]):
                    ctx.violation("C15|nested-containers|%s|%s|outer-entry-lost" % (wname, route.split("/")[0]),
                                  "%s via %s: the error names %r, which does not even name the declared field and the entry %s" % (wname, route, rp, outer[wname]), _case(job, ident))
    ctx.states += 1
    ctx.traces += 1


def _include_mismatch(job, ctx):
    """the main document gives a map for a declared section / config type / typed dict; the file it includes (at the root or
    inside the section) gives a value of another shape for the same key.  The included value wins, so the load is rejected:
    with a ValidationError naming the declared field, as for the same value written in the main document itself"""
    import os
    import cincoconfig as cc
    only = job.get("only")
    targets = [("db", {"db": {"port": 1}}, "db", "root"), ("limits", {"limits": {"cpu": 2}}, "limits", "root"), ("labels", {"labels": {"a": 1}}, "labels", "root"),
               ("db.pool", {"db": {"pool": {"size": 2}}}, "db.pool", "nested"), ("db.tags", {"db": {"tags": {"a": 1}}}, "db.tags", "nested")]
    wrong = [("text", "oops"), ("number", 5), ("list", [1, 2]), ("true", True)]
    for tname, main_tree, want, where in targets:
        for wname, wvalue in wrong:
            for fmt in job["formats"]:
                for direct in (False, True):
                    ident = [tname, wname, fmt, direct]
                    if only is not None and only != ident:
                        continue
                    lim = cc.Schema()
                    lim.cpu = cc.IntField(default=1)
                    s = cc.Schema()
                    s.include = cc.IncludeField(startdir=ctx.tmp)
                    s.db.port = cc.IntField(default=5432)
                    s.db.pool.size = cc.IntField(default=4)
                    s.db.tags = cc.DictField(cc.StringField(), cc.IntField())
                    s.db.include = cc.IncludeField(startdir=ctx.tmp)
                    s.limits = cc.make_type(lim, "Limits15")
                    s.labels = cc.DictField(cc.StringField(), cc.IntField())
                    f = cc.ConfigFormat.get(fmt)
                    leafkey = tname.split(".")[-1]
                    main = json.loads(json.dumps(main_tree))
                    if direct:
                        # control: the wrong value written in the main document itself
                        node = main
                        for part in tname.split(".")[:-1]:
                            node = node[part]
                        node[leafkey] = wvalue
                    else:
                        with open(os.path.join(ctx.tmp, "part.inc"), "wb") as fh:
                            fh.write(f.dumps(None, {leafkey: wvalue}))
                        if where == "root":
                            main["include"] = "part.inc"
                        else:
                            main["db"]["include"] = "part.inc"
                    cfg = s()
                    ctx.transitions += 1
                    exc = attempt(lambda: cfg.loads(f.dumps(None, main), fmt))
                    ctx.case(("include-mismatch", tname, wname, fmt, direct), "include-mismatch:%s" % (type(exc).__name__ if exc else "accepted"), True)
                    judge(ctx, job, ident, "C15|include-mismatch|%s|%s|%s" % (tname, wname, "direct" if direct else "included"),
                          "%s given as %s %s" % (tname, wname, "in the main document" if direct else "by the included file (the main document has a map there)"), exc, want, None, loose=[want])
    ctx.states += 1
    ctx.traces += 1


class DomainError(Exception):
    pass


def _raisers():
    """name -> callable raising when the value must be rejected (exception types a user's validator may well raise)"""
    def keyerror():
        return {"gold": 9}["bronze"]

    def zerodiv():
        return 1 // 0

    def bare_value():
        raise ValueError()

    def bare_assert():
        assert False

    def index():
        return [][3]

    def custom():
        raise DomainError("not in this domain")

    def attribute():
        return None.limit
    return {"KeyError": keyerror, "ZeroDivisionError": zerodiv, "bare-ValueError": bare_value, "bare-AssertionError": bare_assert, "IndexError": index,
            "custom-Exception": custom, "AttributeError": attribute}


def _validators(job, ctx):
    """rejections that come from user validators raising arbitrary exception types (some without a message): a field
    validator that looks at a sibling field (so that it only fails in the whole-configuration pass that ends a load) and
    one that fails at once; at a section, two levels down, in a list item and in a list of config types"""
    import cincoconfig as cc
    fmt = job["fmt"]
    only = job.get("only")

    def node(sch, raiser):
        sch.tier = cc.StringField()
        sch.limit = cc.IntField(default=1)

        def cross(cfg, v, raiser=raiser):
            if cfg.tier == "bronze":        # judged against the sibling: passes while the sibling is still unset
                raiser()
            return v

        def direct(cfg, v, raiser=raiser):
            if v == 7:
                raiser()
            return v
        sch.rate = cc.IntField(validator=cross, name="Rate")
        sch.seven = cc.IntField(validator=direct)
    positions = [("svc", "svc"), ("svc.deep", "svc.deep"), ("members[1]", "members[1]"), ("types[0]", "types[0]")]
    for rname, raiser in _raisers().items():
        for pos, prefix in positions:
            for which, bad_tree, leafpath, friendly in (("cross", {"rate": 3, "tier": "bronze"}, "rate", "Rate"), ("direct", {"seven": 7}, "seven", None)):
                for route in ("load_tree", "loads", "ctor", "assign-map", "attr"):
                    ident = [rname, pos, which, route]
                    if only is not None and only != ident:
                        continue
                    s = cc.Schema()
                    node(s.svc, raiser)
                    node(s.svc.deep, raiser)
                    item = cc.Schema()
                    node(item, raiser)
                    s.members = cc.ListField(item)
                    tsch = cc.Schema()
                    node(tsch, raiser)
                    s.types = cc.ListField(cc.make_type(tsch, "SvcT"))
                    good = {"rate": 1, "tier": "gold"}
                    if pos == "svc":
                        tree = {"svc": bad_tree}
                    elif pos == "svc.deep":
                        tree = {"svc": {"deep": bad_tree}}
                    elif pos == "members[1]":
                        tree = {"members": [good, bad_tree]}
                    else:
                        tree = {"types": [bad_tree, good]}
                    cfg = s()
                    ctx.transitions += 1
                    if route == "load_tree":
                        exc = attempt(lambda: cfg.load_tree(tree))
                    elif route == "loads":
                        exc = attempt(lambda: cfg.loads(cc.ConfigFormat.get(fmt).dumps(None, tree), fmt))
                    elif route == "ctor":
                        exc = attempt(lambda: s(**tree))
                    elif route == "assign-map":
                        k = list(tree)[0]
                        exc = attempt(lambda: setattr(cfg, k, tree[k]))
                    else:
                        # the sibling is set first, then the offending field by attribute on the owning configuration
                        base = {"svc": {"tier": "bronze", "deep": {"tier": "bronze"}}, "members": [dict(good), {"tier": "bronze"}], "types": [{"tier": "bronze"}, dict(good)]}
                        if attempt(lambda: cfg.load_tree(base)) is not None:
                            ctx.case(("validators", fmt) + tuple(ident), "validators:setup-rejected", False)
                            continue
                        owner = cfg
                        for part in pos.replace("[", ".[").split("."):
                            owner = owner[int(part[1:-1])] if part.startswith("[") else getattr(owner, part)
                        exc = attempt(lambda: setattr(owner, leafpath, 3 if which == "cross" else 7))
                    ctx.case(("validators", fmt) + tuple(ident), "validators:%s:%s" % (route, type(exc).__name__ if exc else "accepted"), True)
                    want = prefix + "." + leafpath
                    loose = None
                    if route in ("load_tree", "loads", "ctor", "assign-map") and which == "cross" and "[" in pos:
                        pass
                    judge(ctx, job, ident, "C15|validators|%s|%s|%s|%s" % (rname, pos.split("[")[0], which, route),
                          "validator raising %s at %s (%s) via %s" % (rname, pos, which, route), exc, want, friendly)
    ctx.states += 1
    ctx.traces += 1


def attempt(fn):
    try:
        fn()
        return None
    except BaseException as exc:  # noqa
        return exc


def judge(ctx, job, only, fpbase, desc, exc, want_path, name, loose=False):
    import cincoconfig as cc
    case = _case(job, only)
    if exc is None:
        ctx.violation(fpbase + "|not-rejected", "%s: no error was raised" % desc, case)
        return
    if not isinstance(exc, cc.ValidationError):
        ctx.violation(fpbase + "|wrong-exception-%s" % type(exc).__name__, "%s: raised %s (%s), not a ValidationError" % (desc, type(exc).__name__, V.show(exc, 80)), case)
        return
    if not isinstance(exc, ValueError):
        ctx.violation(fpbase + "|not-a-ValueError", "%s: the validation error is not a ValueError" % desc, case)
    try:
        rp = exc.ref_path
        text = str(exc)
    except Exception as e2:  # noqa
        ctx.violation(fpbase + "|error-unprintable", "%s: reading the error raised %r" % (desc, e2), case)
        return
    ok_paths = [want_path] if not loose else loose
    if rp not in ok_paths:
        ctx.violation(fpbase + "|ref-path", "%s: error names %r, expected %r (text: %s)" % (desc, rp, want_path, V.show(text, 100)), case)
        return
    prefixes = [p + (" (%s)" % name if name else "") + ": " for p in ok_paths]
    if loose:
        prefixes += [p + " (" for p in ok_paths]   # shape errors: a friendly name may follow the path
    if not any(text.startswith(p) for p in prefixes):
        ctx.violation(fpbase + "|text", "%s: error text %r does not start with %r" % (desc, V.show(text, 100), prefixes[0]), case)


def _paths(job, ctx):
    import cincoconfig as cc
    kind = job["leaf"]
    only = job.get("only")
    bads = rejected_values(kind)
    for prior in ("default", "loaded"):
        for pos, want, name in positions():
            for bi, badspec in enumerate(bads):
                for route in routes_for(pos):
                    fmts = job["formats"] if route == "loads" else [None]
                    for fmt in fmts:
                        if only is not None and only != [prior, pos, bi, route, fmt]:
                            continue
                        if route in ("load_tree", "loads") and not jsonlike(badspec):
                            ctx.skipped += 1
                            continue
                        schema, ok = build(kind)
                        okv = V.dec(ok)
                        if isinstance(okv, bytes):
                            import base64
                            okv = base64.b64encode(okv).decode()   # trees carry the on-disk form
                        bad = V.dec(badspec)
                        if route == "ctor" and prior == "loaded":
                            continue
                        cfg = None
                        if route != "ctor":
                            cfg = schema()
                            if prior == "loaded":
                                cfg.load_tree(valid_tree(okv))
                            elif pos.startswith("items") or pos.startswith("ts") or route in ("attr-item", "attr-dict"):
                                # default-built: containers filled by assignment (items are created by assignment, not by a load)
                                cfg.items = valid_tree(okv)["items"]
                                cfg.ts = [{"c": okv}, {"c": okv}]
                                cfg.d = {"k": okv}
                                cfg.sub.d = {"k": okv}
                        tree = tree_with(pos, okv, bad)
                        top, part = subtree(tree, pos)
                        want_here, loose = want, None
                        if route == "ctor":
                            fn = lambda: schema(**{top: part})  # noqa
                        elif route == "load_tree":
                            fn = lambda: cfg.load_tree({top: part})  # noqa
                        elif route == "loads":
                            try:
                                doc = cc.ConfigFormat.get(fmt).dumps(None, {top: part})
                            except Exception:  # noqa
                                ctx.skipped += 1
                                continue
                            if prior == "loaded":
                                # the same document through a file on disk (Config.load)
                                fpath = os.path.join(ctx.tmp, "c15-doc.cfg")
                                with open(fpath, "wb") as fh:
                                    fh.write(doc)
                                fn = lambda: cfg.load(fpath, fmt)  # noqa
                            else:
                                fn = lambda: cfg.loads(doc, fmt)  # noqa
                        elif route == "top-assign":
                            fn = lambda: setattr(cfg, top, part)  # noqa
                        elif route == "attr":
                            owner = W.chained(cfg, pos.rsplit(".", 1)[0]) if "." in pos else cfg
                            val = part if pos == "l" else bad
                            fn = lambda: setattr(owner, pos.rsplit(".", 1)[-1], val)  # noqa
                        elif route == "dotted":
                            val = part if pos == "l" else bad
                            fn = lambda: cfg.__setitem__(pos, val)  # noqa
                        elif route == "attr-item":
                            lst = cfg.items if pos.startswith("items") else cfg.ts
                            i = int(pos.split("[")[1][0])
                            rest = pos.split("].", 1)[1]
                            if rest.endswith("[k]"):
                                fn = lambda: getattr(lst[i], "d").__setitem__("k", bad)  # noqa
                            else:
                                owner = W.chained(lst[i], rest.rsplit(".", 1)[0]) if "." in rest else lst[i]
                                fn = lambda: setattr(owner, rest.rsplit(".", 1)[-1], bad)  # noqa
                        elif route == "attr-dict":
                            if pos.startswith("items"):
                                continue
                            owner = W.chained(cfg, pos[:-3])
                            fn = lambda: owner.__setitem__("k", bad)  # noqa
                        exc = attempt(fn)
                        ctx.transitions += 1
                        ctx.case((kind, prior, pos, bi, route, fmt), "%s:%s" % (route, type(exc).__name__ if exc else "accepted"), True)
                        depth = pos.count(".") + pos.count("[")
                        fpb = "C15|%s|%s|%s|%s" % (kind, pos.replace("[0]", "[i]").replace("[1]", "[i]"), route + ("/" + fmt if fmt else ""), prior)
                        judge(ctx, job, [prior, pos, bi, route, fmt], fpb,
                              "%s leaf at %s, value %s via %s%s on a %s configuration" % (kind, pos, V.show(bad, 30), route, "/" + fmt if fmt else "", prior),
                              exc, want_here, name)
    ctx.states += len(positions()) * 2
    ctx.traces += 1
    ctx.sample({"leaf_kind": kind, "positions": [p[0] for p in positions()], "rejected_values": [V.show(V.dec(b), 20) for b in bads][:8]})


SHAPE_ERRORS = [
    # (id, top-level key, value, acceptable paths)
    ("scalar-for-subconfig", "sub", 5, ["sub"]), ("list-for-subconfig", "sub", [1], ["sub"]), ("string-for-subconfig", "sub", "x", ["sub"]),
    ("scalar-for-deep", "sub", D(("deep", 5)), ["sub.deep"]), ("list-for-deep", "sub", D(("deep", [1])), ["sub.deep"]),
    ("scalar-for-ctype", "t", 5, ["t"]), ("list-for-ctype", "t", [], ["t"]) if False else ("list-for-ctype", "t", [1], ["t"]),
    ("scalar-for-list", "items", 5, ["items"]), ("map-for-list", "items", D(("c", 1)), ["items", "items[0]"]), ("string-for-list", "items", "ab", ["items", "items[0]"]),
    ("scalar-item", "items", [5], ["items", "items[0]"]), ("list-item", "items", [[1]], ["items", "items[0]"]),
    ("scalar-item-2nd", "items", [D(("r", "x")), 5], ["items", "items[1]"]),
    ("scalar-for-item-inner", "items", [D(("r", "x"), ("inner", 5))], ["items[0].inner"]),
    ("missing-required-in-item", "items", [D(("r", "x")), D(("r", None))], ["items[1].r"]),
    ("scalar-for-typed-list", "l", 5, ["l"]), ("map-for-typed-list", "l", D(("a", 1)), ["l"]),
    ("scalar-for-dict", "d", 5, ["d"]), ("list-for-dict", "d", [1], ["d"]), ("scalar-for-nested-dict", "sub", D(("d", 5)), ["sub.d"]),
    ("scalar-for-ctype-list", "ts", 5, ["ts"]), ("scalar-ctype-item", "ts", [5], ["ts", "ts[0]"]),
]


def _shapes(job, ctx):
    import cincoconfig as cc
    only = job.get("only")
    for sid, top, vspec, okpaths in SHAPE_ERRORS:
        for route in ("ctor", "top-assign", "load_tree", "loads"):
            fmts = job["formats"] if route == "loads" else [None]
            for fmt in fmts:
                for prior in ("default", "loaded"):
                    if only is not None and only != [sid, route, fmt, prior]:
                        continue
                    if route == "ctor" and prior == "loaded":
                        continue
                    schema, ok = build("int09")
                    val = V.dec(vspec)
                    cfg = schema()
                    if prior == "loaded":
                        cfg.load_tree(valid_tree(1))
                    if route == "ctor":
                        fn = lambda: schema(**{top: val})  # noqa
                    elif route == "top-assign":
                        fn = lambda: setattr(cfg, top, val)  # noqa
                    elif route == "load_tree":
                        fn = lambda: cfg.load_tree({top: val})  # noqa
                    else:
                        doc = cc.ConfigFormat.get(fmt).dumps(None, {top: val})
                        fn = lambda: cfg.loads(doc, fmt)  # noqa
                    exc = attempt(fn)
                    ctx.transitions += 1
                    ctx.case((sid, route, fmt, prior), "shape:%s:%s" % (route, type(exc).__name__ if exc else "accepted"), True)
                    if exc is None and sid in ("map-for-list", "string-for-list", "map-for-typed-list"):
                        continue   # the loader may coerce these (not a rejection, nothing to name)
                    judge(ctx, job, [sid, route, fmt, prior], "C15|shape|%s|%s|%s" % (sid, route + ("/" + fmt if fmt else ""), prior),
                          "shape error %s (%s=%s) via %s on a %s configuration" % (sid, top, V.show(val, 30), route, prior), exc, okpaths[0], None, loose=okpaths)
    ctx.states += len(SHAPE_ERRORS)
    ctx.traces += 1


# ---------------------------------------------------------------------------------------------
# histories: a rejection, then the offending configuration moves, then another rejection
# ---------------------------------------------------------------------------------------------
MOVES = ["none", "del-first", "insert-front", "reverse", "to-other-list", "pop-append", "sort-swap", "reassign-reordered", "reassign-subset", "reload-own-tree"]
TARGETS = ["c", "inner.e", "d[k]"]


def _moves(job, ctx):
    """the path must follow the configuration: every (prior, warm-up rejection?, move, target) combination"""
    import cincoconfig as cc
    kind = job["leaf"]
    only = job.get("only")
    bads = rejected_values(kind)[:2]
    for prior in ("default", "loaded", "documented"):
        for warm in (False, True):
            for move in MOVES:
                for target in TARGETS:
                    for bi, badspec in enumerate(bads):
                        key = [prior, warm, move, target, bi]
                        if only is not None and only != key:
                            continue
                        schema, ok = build(kind)
                        okv = V.dec(ok)
                        if isinstance(okv, bytes):
                            import base64
                            okv = base64.b64encode(okv).decode()
                        bad = V.dec(badspec)
                        cfg = schema()
                        tree = valid_tree(okv)
                        tree["items"].append({"c": okv, "r": "third", "inner": {"e": okv}, "d": {"k": okv}})
                        if prior == "loaded":
                            cfg.load_tree(tree)
                        elif prior == "documented":
                            cfg.loads(cc.ConfigFormat.get("json").dumps(None, tree), "json")
                        else:
                            cfg.items = tree["items"]
                            cfg.ts = tree["ts"]
                        victim = cfg.items[1]           # the configuration we follow
                        ctx.transitions += 1

                        def reject(obj=victim):
                            if target == "c":
                                return attempt(lambda: setattr(obj, "c", bad))
                            if target == "inner.e":
                                return attempt(lambda: setattr(obj.inner, "e", bad))
                            return attempt(lambda: obj.d.__setitem__("k", bad))
                        if warm:
                            w = reject()
                            if w is not None:
                                str(w), getattr(w, "ref_path", None)      # an application reports the first error
                        try:
                            if move == "del-first":
                                del cfg.items[0]
                                want = "items[0]"
                            elif move == "insert-front":
                                cfg.items.insert(0, {"c": okv, "r": "new", "inner": {"e": okv}, "d": {"k": okv}})
                                want = "items[2]"
                            elif move == "reverse":
                                cfg.items.reverse()
                                want = "items[1]"
                            elif move == "to-other-list":
                                cfg.items.remove(victim)
                                cfg.backups = []
                                cfg.backups.append(victim)
                                want = "backups[0]"
                            elif move == "pop-append":
                                cfg.items.append(cfg.items.pop(1))
                                want = "items[2]"
                            elif move == "sort-swap":
                                cfg.items[0], cfg.items[1] = cfg.items[1], cfg.items[0]
                                want = "items[0]"
                            elif move == "reassign-reordered":
                                # the list is assigned again from a plain list of its own items, in another order
                                cfg.items = [cfg.items[1], cfg.items[2], cfg.items[0]]
                                want = "items[0]"
                            elif move == "reassign-subset":
                                cfg["items"] = [victim]
                                want = "items[0]"
                            elif move == "reload-own-tree":
                                cfg.load_tree({"items": [cfg.items[2].to_tree(), victim.to_tree()]})
                                victim = cfg.items[1]
                                want = "items[1]"
                            else:
                                want = "items[1]"
                        except Exception as exc:  # noqa
                            ctx.case(tuple(map(str, key)), "move:raises", True)
                            ctx.violation("C15|moves|%s|move-raises" % move, "move %s raised %r" % (move, exc), _case(job, key))
                            continue
                        exc = reject(victim)
                        name = "Inner E" if target == "inner.e" else None
                        ctx.case(tuple(map(str, key)), "move:%s:%s" % (move, type(exc).__name__ if exc else "accepted"), True)
                        judge(ctx, job, key, "C15|moves|%s|%s|%s|%s" % (kind, move, target, prior) + ("|warm" if warm else ""),
                              "%s leaf, items %s, %s, then %s=%s on the followed item" % (kind, prior, move, target, V.show(bad, 20)), exc, want + "." + target, name)
    # stand-alone configurations that are attached later
    for warm in (False, True):
        for how in ("ctype-to-field", "ctype-to-list", "schema-item-to-list", "template-to-section", "ctype-to-section", "other-section-to-section", "template-to-deep-section"):
            key = ["standalone", warm, how]
            if only is not None and only != key:
                continue
            schema, ok = build(kind)
            okv = V.dec(ok)
            bad = V.dec(bads[0])
            cfg = schema()
            ctx.transitions += 1
            if how == "ctype-to-field":
                obj = schema._fields["t"].config_type()
                if warm:
                    str(attempt(lambda: setattr(obj, "c", bad)))
                cfg.t = obj
                want = "t.c"
            elif how == "ctype-to-list":
                obj = schema._fields["ts"].field()
                if warm:
                    str(attempt(lambda: setattr(obj, "c", bad)))
                cfg.ts = []
                cfg.ts.append(obj)
                want = "ts[0].c"
            elif how.endswith("-section"):
                # a plain section is given a configuration object that was not built from the section's own sub-schema: a
                # stand-alone template, a config-type instance, the section of another root that sits under another key
                import cincoconfig as cc
                field_key = "e" if how == "template-to-deep-section" else "c"
                if how.startswith("template"):
                    tmpl = cc.Schema()
                    setattr(tmpl, field_key, R.mk_field(W.catalogue()[kind][0]))
                    obj = tmpl()
                elif how == "ctype-to-section":
                    obj = schema._fields["t"].config_type()
                else:
                    obj = schema().proto
                    obj.c = okv
                if warm:
                    str(attempt(lambda: setattr(obj, field_key, bad)))
                if how == "template-to-deep-section":
                    cfg.sub.deep = obj
                    want = "sub.deep.e"
                else:
                    cfg.sub = obj
                    want = "sub.c"
                exc = attempt(lambda: setattr(obj, field_key, bad))
                ctx.case(tuple(map(str, key)), "standalone:%s" % how, True)
                judge(ctx, job, key, "C15|moves|%s|standalone|%s" % (kind, how) + ("|warm" if warm else ""),
                      "%s leaf, stand-alone configuration attached by %s" % (kind, how), exc, want, None)
                continue
            else:
                obj = schema._fields["items"].field()
                obj.r = "x"
                if warm:
                    str(attempt(lambda: setattr(obj, "c", bad)))
                cfg.items = []
                cfg.items.append(obj)
                want = "items[0].c"
            exc = attempt(lambda: setattr(obj, "c", bad))
            ctx.case(tuple(map(str, key)), "standalone:%s" % how, True)
            judge(ctx, job, key, "C15|moves|%s|standalone|%s" % (kind, how) + ("|warm" if warm else ""),
                  "%s leaf, stand-alone configuration attached by %s" % (kind, how), exc, want, None)
    # stand-alone configurations that fail their *own* validation when they are inserted (required field never set)
    for how in ("append", "assign-list", "insert", "setitem", "iadd", "ctor"):
        for where in ("item.r", "item.inner"):
            key = ["standalone-invalid", how, where]
            if only is not None and only != key:
                continue
            schema, ok = build(kind)
            okv = V.dec(ok)
            if isinstance(okv, bytes):
                import base64
                okv = base64.b64encode(okv).decode()
            cfg = schema()
            cfg.items = [{"c": okv, "r": "first", "inner": {"e": okv}}]
            obj = schema._fields["items"].field()
            if where == "item.r":
                obj._data["r"] = None           # required, never set
                want_tail = "r"
            else:
                obj.r = "x"
                bad = V.dec(bads[0])
                obj.inner._data["e"] = bad      # a value that its field rejects, placed without validation
                want_tail = None
            ctx.transitions += 1
            if how == "append":
                exc, idx = attempt(lambda: cfg.items.append(obj)), 1
            elif how == "assign-list":
                exc, idx = attempt(lambda: setattr(cfg, "items", [obj])), 0
            elif how == "insert":
                exc, idx = attempt(lambda: cfg.items.insert(0, obj)), None
            elif how == "setitem":
                exc, idx = attempt(lambda: cfg.items.__setitem__(0, obj)), None
            elif how == "iadd":
                def f():
                    cfg.items += [obj]
                exc, idx = attempt(f), 1
            else:
                exc, idx = attempt(lambda: schema(items=[obj])), 0
            ctx.case(tuple(key), "standalone-invalid:%s:%s" % (how, type(exc).__name__ if exc else "accepted"), True)
            if where == "item.inner":
                continue      # only the required-field case has a determined path
            if idx is None:
                # the position reported for an item that is being inserted is not determined by the statement: any index
                loose = ["items[%d].r" % i for i in range(3)]
                judge(ctx, job, key, "C15|moves|%s|standalone-invalid|%s" % (kind, how), "stand-alone item without its required field via %s" % how, exc, loose[0], None, loose=loose)
            else:
                judge(ctx, job, key, "C15|moves|%s|standalone-invalid|%s" % (kind, how), "stand-alone item without its required field via %s" % how, exc, "items[%d].r" % idx, None)
    # typed dict with arbitrary keys (Python routes only): the key is named whatever its type
    for k in ("k", 5, ("r", "c"), ("a",), None, 1.5, True):
        key = ["anykey", repr(k)]
        if only is not None and only != key:
            continue
        schema, ok = build(kind)
        bad = V.dec(bads[0])
        cfg = schema()
        for route in ("setitem", "assign", "update", "ctor"):
            ctx.transitions += 1
            if route == "setitem":
                cfg.ad = {}
                exc = attempt(lambda: cfg.ad.__setitem__(k, bad))
            elif route == "assign":
                exc = attempt(lambda: setattr(cfg, "ad", {k: bad}))
            elif route == "update":
                cfg.ad = {}
                exc = attempt(lambda: cfg.ad.update({k: bad}))
            else:
                exc = attempt(lambda: schema(ad={k: bad}))
            ctx.case(("anykey", repr(k), route), "anykey:%s:%s" % (route, type(exc).__name__ if exc else "accepted"), True)
            judge(ctx, job, key, "C15|anykey|%s|%s|%s" % (kind, type(k).__name__, route), "typed dict entry with key %r via %s" % (k, route), exc, "ad[%s]" % (k,), None)
    # a list of configurations grows by several items in one step and the rejected one is not the first of the batch
    for lst, targets in (("items", ("c", "inner.e", "d[k]")), ("ts", ("c",))):
        for how in ("extend", "iadd", "add-assign", "extend-generator"):      # (slice insertion: which index an item "has" before it is stored is not defined)
            for target in targets:
                for badpos in (1, 2):
                    key = ["batch", lst, how, target, badpos]
                    if only is not None and only != key:
                        continue
                    schema, ok = build(kind)
                    okv = V.dec(ok)
                    if isinstance(okv, bytes):
                        import base64
                        okv = base64.b64encode(okv).decode()
                    bad = V.dec(bads[0])
                    if not jsonlike(bads[0]):
                        continue
                    cfg = schema()
                    tree = valid_tree(okv)
                    try:
                        cfg.load_tree(tree)
                    except Exception:  # noqa
                        continue
                    def good_item():
                        return {"c": okv, "r": "x", "inner": {"e": okv}, "d": {"k": okv}} if lst == "items" else {"c": okv}
                    bad_item = good_item()
                    if target == "c":
                        bad_item["c"] = bad
                    elif target == "inner.e":
                        bad_item["inner"]["e"] = bad
                    else:
                        bad_item["d"]["k"] = bad
                    batch = [good_item() for _ in range(badpos)] + [bad_item, good_item()]
                    cur = getattr(cfg, lst)
                    n0 = len(cur)
                    ctx.transitions += 1
                    if how == "extend":
                        exc = attempt(lambda: cur.extend(batch))
                        idx = n0 + badpos
                    elif how == "extend-generator":
                        exc = attempt(lambda: cur.extend(x for x in batch))
                        idx = n0 + badpos
                    elif how == "iadd":
                        exc = attempt(lambda: cur.__iadd__(batch))
                        idx = n0 + badpos
                    elif how == "add-assign":
                        exc = attempt(lambda: setattr(cfg, lst, cur + batch))
                        idx = n0 + badpos
                    else:
                        exc = attempt(lambda: cur.__setitem__(slice(1, 1), batch))
                        idx = 1 + badpos
                    ctx.case(tuple(map(str, key)), "batch:%s:%s" % (how, type(exc).__name__ if exc else "accepted"), True)
                    judge(ctx, job, key, "C15|batch|%s|%s|%s|%s" % (kind, lst, how, target.split("[")[0]),
                          "%s grows by %d items through %s, item %d of the batch has a bad %s" % (lst, len(batch), how, badpos, target), exc,
                          "%s[%d].%s" % (lst, idx, target), "Inner E" if target == "inner.e" else None)
    # a typed dict / list value of one configuration is handed to another position that uses the same field object;
    # entries rejected later on the receiving side must be reported under the receiver's path
    for src, dst, want in (("items[0]", "items[1]", "items[1].d[k]"), ("items[1]", "backups[0]", "backups[0].d[k]"), ("proto", "items[0]", "items[0].d[k]"),
                           ("items[0]", "proto", "proto.d[k]")):
        for how in ("setitem", "update", "setdefault", "ior"):
            key = ["handover", src, dst, how]
            if only is not None and only != key:
                continue
            schema, ok = build(kind)
            okv = V.dec(ok)
            if isinstance(okv, bytes):
                import base64
                okv = base64.b64encode(okv).decode()
            bad = V.dec(bads[0])
            cfg = schema()
            tree = valid_tree(okv)
            tree["backups"] = [json.loads(json.dumps(tree["items"][0])) if _j(okv) else dict(tree["items"][0])]
            tree["proto"] = json.loads(json.dumps(tree["items"][0])) if _j(okv) else dict(tree["items"][0])
            try:
                cfg.load_tree(tree)

                def at(p):
                    return getattr(cfg, p.split("[")[0])[int(p[-2])] if "[" in p else getattr(cfg, p)
                at(dst).d = at(src).d
                target = at(dst).d
            except Exception as exc:  # noqa
                ctx.case(tuple(key), "handover:setup-raises", False)
                continue
            ctx.transitions += 1
            if how == "setitem":
                exc = attempt(lambda: target.__setitem__("k", bad))
            elif how == "update":
                exc = attempt(lambda: target.update({"k": bad}))
            elif how == "setdefault":
                exc = attempt(lambda: target.setdefault("k2", bad))
            else:
                exc = attempt(lambda: target.__ior__({"k": bad}))
            ctx.case(tuple(key), "handover:%s:%s" % (how, type(exc).__name__ if exc else "accepted"), True)
            judge(ctx, job, key, "C15|handover|%s|%s|%s" % (kind, dst.split("[")[0], how),
                  "typed dict of %s assigned to %s, then a rejected entry via %s" % (src, dst, how), exc, want.replace("[k]", "[k2]") if how == "setdefault" else want, None)
    ctx.states += 1
    ctx.traces += 1
