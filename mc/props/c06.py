"""
C06 - a rejected operation leaves the configuration exactly as it was.

(ops)  the C01 state space: at every reachable state every operation of the listed kinds (assignment
       by attribute / dotted path / to a sub-configuration with a map or configuration, single-element
       insertion or replacement on a typed list or dict, attribute assignment on a configuration held in
       a list) is executed; whenever it raises, the complete snapshot - values at all depths,
       user-defined marks, identity of every nested configuration - must equal the one taken before.
(docs) for a valid document in every format: every proper prefix of its bytes, a wrong XML root tag,
       undecodable bytes, and include paths that are missing / a directory / unreadable.  A load whose
       failure is a *parse* failure or an *include-resolution* failure must leave the snapshot unchanged.
"""
import builtins
import json
import os

from mc import cfgworld as W
from mc import values as V
from mc.values import D

PROP = "C06"
LEVEL = "model_checking"
RULE = ("BFS over operation histories per (shape, leaf kind); at every state every failing operation of the listed kinds; "
        "plus every proper prefix of a document per format and include faults; non-trivial = the operation raised; "
        "distinct = distinct (shape, leaf, state, operation) / (format, state, prefix length)")
ASSUMPTIONS = ["a document 'fails to parse' iff the formatter's own loads() raises on it", "an unreadable include is simulated by an open() that raises PermissionError for that path (sandbox runs as root)"]

LISTED = ("set", "setitem", "setcfg", "setcfg-nv", "itemset")


def bounds(tier):
    return {"shapes": W.SHAPES + ["nested-v", "cfglist-v"], "leaves": list(W.catalogue()) if tier == "thorough" else W.quick_leaves(),
            "depth": 3 if tier == "thorough" else 2, "depth_note": "thorough: 3 for the quick tier's leaves, 2 for the other catalogue leaves", "document_formats": ["json", "yaml", "xml", "bson", "pickle"]}


def jobs(tier):
    b = bounds(tier)
    out = []
    for sh in b["shapes"]:
        for leaf in b["leaves"]:
            # thorough: the deeper bound for the quick tier's leaves, the quick bound for the rest of the catalogue
            depth = b["depth"] if tier != "thorough" or leaf in W.quick_leaves() else 2
            out.append({"name": "ops/%s/%s" % (sh, leaf), "kind": "ops", "shape": sh, "leaf": leaf, "depth": depth, "tier": tier})
    for sh in ("nested+late", "cfglist+late", "nested+env", "nested+off"):
        for leaf in ["int09", "str-norm", "list-int", "dict-typed", "bool"]:
            out.append({"name": "ops/%s/%s" % (sh, leaf), "kind": "ops", "shape": sh, "leaf": leaf, "depth": b["depth"], "tier": tier})
    for leaf in (b["leaves"] if tier == "thorough" else ["int09", "str-regex-req", "list-int"]):
        out.append({"name": "ops/cfglist2-v/%s" % leaf, "kind": "ops", "shape": "cfglist2-v", "leaf": leaf, "depth": b["depth"], "tier": tier})
    for leaf in (["int09", "str-norm", "list-int", "dict-typed", "str-regex-req", "challenge", "bool"] if tier != "thorough" else b["leaves"]):
        out.append({"name": "growth/%s" % leaf, "kind": "growth", "leaf": leaf, "tier": tier})
    out.append({"name": "storage-hooks", "kind": "hooks", "tier": tier})
    for fmt in b["document_formats"]:
        for sh in (["nested", "cfglist"] if tier == "quick" else W.SHAPES):
            out.append({"name": "docs/%s/%s" % (fmt, sh), "kind": "docs", "fmt": fmt, "shape": sh, "tier": tier})
    out.append({"name": "includes", "kind": "includes", "tier": tier})
    return out


def listed(op):
    if op[0] in LISTED:
        return True
    if op[0] == "mut" and op[2] in W.SINGLE_ELEMENT_MUTATORS:
        return True
    return False


class Monitor:
    def __init__(self, shape, leaf, tier):
        self.shape, self.leaf, self.tier = shape, leaf, tier
        self.spec = W.shape(shape, leaf)

    def case(self, hist, op):
        return {"kind": "ops", "shape": self.shape, "leaf": self.leaf, "hist": hist, "op": op, "tier": self.tier, "job": "ops/%s/%s" % (self.shape, self.leaf)}

    def ctor_failed(self, ctx, spec, init, exc):
        ctx.case((self.shape, self.leaf, "init", repr(init)), "ctor:rejected", True)

    def state(self, ctx, w, hist):
        pass

    def step(self, ctx, before, before_ids, op, outcome, w, hist):
        from mc.props.c01 import _opkey
        if not listed(op):
            ctx.case((self.shape, self.leaf, repr(before), repr(op)), "unlisted", False)
            return
        ctx.case((self.shape, self.leaf, repr(before), repr(op)), "%s:%s" % (op[0], "ok" if outcome[0] == "ok" else "raised"),
                 outcome[0] == "raise")
        if outcome[0] == "ok":
            return
        after_ids = W.snapshot(w.cfg, with_ids=True)
        if after_ids != before_ids:
            after = W.strip_ids(after_ids)
            diffs = W.diff_paths(before, after)
            what = "values-or-marks" if diffs else "identity"
            marks = all(d.endswith("#mark") for d in diffs) and diffs
            ctx.violation("C06|%s|%s|%s|%s" % (self.shape, self.leaf, _opkey(op), "marks" if marks else what),
                          "after %s, %s raised %r but the configuration changed at %s" % (hist, op, outcome[1], diffs or "(identity of a nested configuration)"),
                          self.case(hist, op), size=len(hist))
            return
        # "observably unchanged" includes what the configuration does next: the same operation, tried again, is
        # rejected again and still changes nothing
        ctx.transitions += 1
        try:
            W.apply_op(w, op)
            again = None
        except Exception as exc:  # noqa
            again = exc
        if again is None:
            ctx.violation("C06|%s|%s|%s|accepted-on-retry" % (self.shape, self.leaf, _opkey(op)),
                          "after %s, %s raised %r; the same operation tried again was accepted" % (hist, op, outcome[1]), self.case(hist, op), size=len(hist))
        elif W.snapshot(w.cfg, with_ids=True) != before_ids:
            ctx.violation("C06|%s|%s|%s|changed-on-retry" % (self.shape, self.leaf, _opkey(op)),
                          "after %s, %s raised twice (%r) and the second attempt changed the configuration" % (hist, op, again), self.case(hist, op), size=len(hist))


def run_job(job, ctx):
    single = job.get("single")
    if single:
        if single["kind"] == "ops":
            m = Monitor(single["shape"], single["leaf"], single.get("tier", "quick"))
            W.explore(ctx, m.spec, single["leaf"], 0, m, only=(single["hist"], single["op"]))
        elif single["kind"] == "docs":
            j = dict(single["jobparams_full"]); j["only"] = single["only"]
            _docs(j, ctx)
        elif single["kind"] == "growth":
            j = dict(single["jobparams_full"]); j["only"] = single["only"]
            _growth(j, ctx)
        elif single["kind"] == "hooks":
            j = dict(single["jobparams_full"]); j["only"] = single["only"]
            _hooks(j, ctx)
        else:
            j = dict(single["jobparams_full"]); j["only"] = single["only"]
            _includes(j, ctx)
        return
    if job["kind"] == "ops":
        m = Monitor(job["shape"], job["leaf"], job["tier"])
        n, nops = W.explore(ctx, m.spec, job["leaf"], job["depth"], m, tier=job["tier"], share_schema=True)
        ctx.sample({"shape": job["shape"], "leaf": job["leaf"], "states": n, "operations_per_state": nops})
    elif job["kind"] == "docs":
        _docs(job, ctx)
    elif job["kind"] == "growth":
        _growth(job, ctx)
    elif job["kind"] == "hooks":
        _hooks(job, ctx)
    else:
        _includes(job, ctx)


def _hooks(job, ctx):
    """fields whose documented storage hook (`__setval__`) refuses a value that passed validation - a locked constant, a
    value guarded by another field: the assignment raises and must leave values, user-defined marks and identities alone.
    States: fresh (default mark), assigned, reset; positions: root, sub-configuration, list item; routes: attribute, dotted
    path, item assignment, map to the sub-configuration, constructor keyword."""
    import cincoconfig as cc
    only = job.get("only")

    class Locked(cc.IntField):
        def __setval__(self, cfg, value):
            if value == 13:
                raise ValueError("13 cannot be stored")
            super().__setval__(cfg, value)

    class LockedStr(cc.StringField):
        def __setval__(self, cfg, value):
            if value == "locked":
                raise TypeError("refused by the storage hook")
            super().__setval__(cfg, value)

    def build():
        s = cc.Schema()
        s.n = Locked(default=1)
        s.t = LockedStr(default="d", transform_case="lower")
        s.w = cc.IntField(default=0)
        s.sub.n = Locked(default=2)
        s.sub.t = LockedStr()
        item = cc.Schema()
        item.n = Locked(default=3)
        s.items = cc.ListField(item)
        return s
    preps = {"fresh": lambda c: None, "assigned": lambda c: (setattr(c, "n", 5), setattr(c.sub, "n", 6), setattr(c, "t", "x"), setattr(c.sub, "t", "y")),
             "reset": lambda c: (setattr(c, "n", 5), cc.reset_value(c, "n"), setattr(c.sub, "n", 6), cc.reset_value(c.sub, "n"))}
    attempts = {
        "attr": lambda c: setattr(c, "n", 13), "attr-str": lambda c: setattr(c, "t", "LOCKED"), "attr-sub": lambda c: setattr(c.sub, "n", 13),
        "path": lambda c: c.__setitem__("sub.n", 13), "path-str": lambda c: c.__setitem__("sub.t", "locked"), "item": lambda c: c.__setitem__("n", 13),
        "map-to-sub": lambda c: setattr(c, "sub", {"t": "ok", "n": 13}), "list-item": lambda c: setattr(c.items[0], "n", 13),
        "load_tree": lambda c: c.load_tree({"w": 4, "n": 13}),
    }
    for pname, prep in preps.items():
        for aname, attempt in attempts.items():
            ident = [pname, aname]
            if only is not None and only != ident:
                continue
            cfg = build()()
            cfg.items = [{"n": 4}, {}]
            prep(cfg)
            before = W.snapshot(cfg, with_ids=True)
            ctx.transitions += 1
            case = {"kind": "hooks", "jobparams_full": {k: v for k, v in job.items() if k not in ("single", "only")}, "only": ident, "job": job["name"]}
            try:
                attempt(cfg)
                raised = None
            except Exception as exc:  # noqa
                raised = exc
            ctx.case(("hooks", pname, aname), "hooks:%s" % ("rejected" if raised else "accepted"), True)
            if raised is None:
                ctx.violation("C06|hooks|%s|%s|accepted" % (pname, aname), "the storage hook refused the value but the operation returned normally", case)
                continue
            if aname == "load_tree":
                continue            # a tree load that fails half-way is not among the listed operations
            after = W.snapshot(cfg, with_ids=True)
            if after != before:
                ctx.violation("C06|hooks|%s|%s|changed" % (pname, aname),
                              "state %s, rejected %s (%r): the configuration changed: before %s, after %s" % (pname, aname, raised, V.show(before, 200), V.show(after, 200)), case)
    # constructor keyword: nothing is built
    if only is None or only == ["ctor"]:
        try:
            build()(n=13)
            ctx.violation("C06|hooks|ctor|accepted", "constructor keyword refused by the storage hook but construction returned", {"kind": "hooks", "jobparams_full": dict(job), "only": ["ctor"], "job": job["name"]})
        except Exception:  # noqa
            pass
    ctx.states += len(preps)
    ctx.traces += 1


def _growth(job, ctx):
    """the schema grows after the configuration was built (a leaf at the root / in an existing sub-schema / two levels
    down / in a brand-new sub-schema); every rejected assignment that targets the late field, by attribute, item and
    dotted path, and rejected maps / scalars assigned to the late sub-schema, must leave the configuration as it was"""
    from mc.ref import fields as R
    leaf = job["leaf"]
    lspec, valid, invalid = W.catalogue()[leaf]
    only = job.get("only")
    base = W.shape("nested", "int09")
    n = 0
    for position in ("", "sub", "sub.deep", "newsub", "sub.newsub"):
        attempts = []
        for v in invalid:
            attempts.append(("attr", position, v))
            attempts.append(("item", position, v))
            if position.endswith("newsub") and W._jsonlike(v):
                attempts.append(("map", position, D(("late", v))))
        if position.endswith("newsub"):
            attempts += [("map", position, 5), ("map", position, [1]), ("map", position, D(("nosuchfield", 1)))]
        for prior in ("fresh", "used"):
            for route, pos, v in attempts:
                n += 1
                ident = [position, prior, route, json.dumps(v, sort_keys=True, default=repr)]
                if only is not None and only != ident:
                    continue
                built = W.Built(base)
                cfg = built.schema()
                if prior == "used":
                    cfg.a = 3
                    cfg.sub.deep.e = 2
                    cfg.to_tree()
                sch = built.schema
                for part in [x for x in position.split(".") if x]:
                    sch = getattr(sch, part)
                sch.late = built._leaf(lspec)
                before = W.snapshot(cfg, with_ids=True)
                value = V.dec(v)
                path = (position + "." if position else "") + "late"
                ctx.transitions += 1
                try:
                    if route == "attr":
                        setattr(W.chained(cfg, position) if position else cfg, "late", value)
                    elif route == "item":
                        cfg[path] = value
                    else:
                        owner = W.chained(cfg, position.rsplit(".", 1)[0]) if "." in position else cfg
                        setattr(owner, position.rsplit(".", 1)[-1], value)
                    outcome = None
                except Exception as exc:  # noqa
                    outcome = exc
                ctx.case(("growth", leaf, position, prior, route, repr(v)), "growth:%s" % ("raised" if outcome is not None else "ok"), outcome is not None)
                if outcome is None:
                    continue
                after = W.snapshot(cfg, with_ids=True)
                if after != before:
                    diffs = W.diff_paths(W.strip_ids(before), W.strip_ids(after))
                    ctx.violation("C06|growth|%s|%s|%s" % (leaf, position or "root", route),
                                  "the schema gained %s after the configuration was built; %s assignment of %s raised %r but the configuration changed at %s"
                                  % (path, route, V.show(value, 40), outcome, diffs or "(identity)"), _case(job, ident))
    ctx.sample({"growth": leaf, "attempts": n})


def _case(job, only):
    return {"kind": job["kind"], "jobparams_full": {k: v for k, v in job.items() if k not in ("single", "only")}, "only": only, "job": job["name"]}


def _doc_states(shape):
    """(leaf, history) pairs: the states documents are loaded into, and trees to write"""
    leaf = "int09"
    spec = W.shape(shape, leaf)
    hists = [[["init", None]]]
    ops = W.ops_for(spec, leaf)
    # one accepted assignment per distinct op kind as prior state
    seen = set()
    for op in ops:
        if op[0] in ("set", "mut", "load_tree") and op[0] not in seen:
            seen.add(op[0])
            hists.append([["init", None], op])
    return leaf, spec, hists


def _docs(job, ctx):
    import cincoconfig as cc
    fmt, shape = job["fmt"], job["shape"]
    leaf, spec, hists = _doc_states(shape)
    only = job.get("only")
    for hi, hist in enumerate(hists):
        # the document: what a fully assigned configuration of this shape serialises to
        src = W.build_world(spec, hist)
        for p, f in W.leaf_paths(spec):
            if f == W.catalogue()[leaf][0]:
                try:
                    src.cfg[p] = 7
                except Exception:  # noqa
                    pass
        if shape == "cfglist":
            src.cfg.items = [{"c": 3, "r": "x"}, {"c": 4, "r": "y"}]
        doc = src.cfg.dumps(fmt)
        fmtr = cc.ConfigFormat.get(fmt)
        variants = [("prefix", i, doc[:i]) for i in range(len(doc))]
        variants += [("undecodable", 0, b"\xff\xfe\x00\x80" + doc[:10]), ("undecodable-mid", 0, doc[:len(doc) // 2] + b"\xff\xfe" + doc[len(doc) // 2:]),
                     ("garbage", 0, b"\x00\x01\x02not a document"), ("empty", 0, b"")]
        if fmt in ("json", "yaml", "xml"):
            # a byte that is not UTF-8 at every offset of the (text) document: inside names, values, markup
            variants += [("bad-byte-at", i, doc[:i] + b"\xff" + doc[i:]) for i in range(len(doc) + 1)]
        if fmt == "xml":
            variants.append(("wrong-root", 0, doc.replace(b"<config", b"<other").replace(b"</config>", b"</other>")))
        # documents whose root is not a map (the formats that can write one): scalars, lists, and lists that start with
        # well-formed [key, value] pairs of this schema
        wrong_roots = []
        if fmt in ("json", "yaml", "pickle"):
            keys = [k for k, f in spec["fields"] if f["k"] not in ("Schema", "CType", "List")]
            pairs = [[k, 7] for k in keys[:2]]
            for ri, root in enumerate([[1, 2, 3], "text", 5, pairs + [5], pairs + [["w"]], [pairs[0], "x"] if pairs else ["x"]]):
                try:
                    variants.append(("root-not-a-map", ri, fmtr.dumps(None, root)))
                    wrong_roots.append(ri)
                except Exception:  # noqa
                    pass
        for kind, i, data in variants:
            if only is not None and only != [hi, kind, i]:
                continue
            # classify: does the *formatter* fail to parse it?
            try:
                fmtr.loads(None, data)
                parse_fails = kind == "root-not-a-map"        # decodes, but not to a configuration tree
            except Exception:  # noqa
                parse_fails = True
            if kind == "bad-byte-at":
                parse_fails = True        # by construction: not a document of a UTF-8 text format, whatever the decoder makes of it
            w = W.build_world(spec, hist)
            before = W.snapshot(w.cfg, with_ids=True)
            try:
                w.cfg.loads(data, fmt)
                raised = None
            except Exception as exc:  # noqa
                raised = exc
            ctx.transitions += 1
            ctx.case((fmt, shape, hi, kind, i), "doc:%s:%s" % (kind, "parse-fails" if parse_fails else "parses"), parse_fails)
            if not parse_fails:
                continue
            case = _case(job, [hi, kind, i])
            if raised is None and kind == "root-not-a-map":
                continue          # whether such a document is rejected is not C06's business; if it is, nothing may change
            if raised is None:
                ctx.violation("C06|docs|%s|%s|unparseable-accepted" % (fmt, kind), "%s document variant %s[%d] does not parse, yet loads() returned" % (fmt, kind, i), case, size=i)
                continue
            after = W.snapshot(w.cfg, with_ids=True)
            if after != before:
                ctx.violation("C06|docs|%s|%s|changed" % (fmt, kind),
                              "state %s: loading the unparseable %s document (%s, %d bytes) raised %r but changed the configuration at %s"
                              % (hist, fmt, kind, len(data), raised, W.diff_paths(W.strip_ids(before), W.strip_ids(after))), case, size=i)
        ctx.states += 1
    ctx.traces += 1
    ctx.sample({"format": fmt, "shape": shape, "prior_states": len(hists), "every_prefix_of_document_bytes": True})


def _includes(job, ctx):
    """include file missing / a directory / unreadable, at the root and in a nested schema, in every format"""
    import cincoconfig as cc
    only = job.get("only")
    tmp = ctx.tmp
    os.makedirs(os.path.join(tmp, "adir"), exist_ok=True)
    secret = os.path.join(tmp, "unreadable.inc")
    real_open = builtins.open

    def guarded_open(file, *a, **k):
        if isinstance(file, (str, bytes, os.PathLike)) and os.path.abspath(os.fsdecode(file)) == secret:
            raise PermissionError(13, "Permission denied", file)
        return real_open(file, *a, **k)

    for fmt in ("json", "yaml", "xml", "bson", "pickle"):
        real_open(secret, "wb").write(cc.ConfigFormat.get(fmt).dumps(None, {"x": 9}))
        for where in ("root", "nested", "chained", "nested-flag-off"):
            for fault, path in (("missing", os.path.join(tmp, "nope.inc")), ("directory", os.path.join(tmp, "adir")), ("unreadable", secret),
                                ("missing-relative", "nope-rel.inc"), ("unparseable", os.path.join(tmp, "garbage.inc"))):
                for prior in ("fresh", "assigned", "dynamic", "env", "include-set"):
                    if only is not None and only != [fmt, where, fault, prior]:
                        continue
                    real_open(os.path.join(tmp, "garbage.inc"), "wb").write(b"\x00\xff{{{<<not a document")
                    for k in [k for k in os.environ if k.startswith("C06ENV")]:
                        del os.environ[k]
                    if prior == "env":
                        # fields bound to variables that are set; the application has since assigned other values
                        os.environ["C06ENV_X"] = "5"
                        os.environ["C06ENV_SUB_X"] = "6"
                    s = cc.Schema(dynamic=(prior == "dynamic"), **({"env": "C06ENV"} if prior == "env" else {}))
                    s.x = cc.IntField(default=1)
                    s.y = cc.StringField(default="d")
                    if prior == "dynamic":
                        s.sub = cc.Schema(dynamic=True)
                    s.sub.x = cc.IntField(default=1)
                    s.sub.l = cc.ListField(cc.IntField(), default=[1])
                    if where == "root":
                        s.include = cc.IncludeField()
                        tree = {"x": 2, "y": "new", "sub": {"x": 3, "l": [5]}, "include": path}
                    elif where == "chained":
                        # the root's include is fine; the section it brings in names an include of its own that is not
                        s.include = cc.IncludeField()
                        s.sub.include = cc.IncludeField()
                        good = os.path.join(tmp, "good-%s.inc" % fmt)
                        real_open(good, "wb").write(cc.ConfigFormat.get(fmt).dumps(None, {"sub": {"x": 3, "l": [5], "include": path}}))
                        tree = {"x": 2, "y": "new", "include": good}
                    elif where == "nested-flag-off":
                        # the section that names the bad include is switched off by the very document (feature flag false)
                        s.sub.enabled = cc.FeatureFlagField(default=True)
                        s.sub.include = cc.IncludeField()
                        tree = {"x": 2, "y": "new", "sub": {"enabled": False, "x": 3, "l": [5], "include": path}}
                    else:
                        s.sub.include = cc.IncludeField()
                        tree = {"x": 2, "y": "new", "sub": {"x": 3, "l": [5], "include": path}}
                    cfg = s()
                    if prior in ("assigned", "env"):
                        cfg.x = 7
                        cfg.sub.l.append(4)
                    if prior == "env":
                        cfg.sub.x = 8
                        os.environ["C06ENV_X"] = "4"          # ... and the environment has moved on as well
                    if prior == "include-set":
                        # the include fields already hold the name of a good file (assigned, or left by an earlier load)
                        held = os.path.join(tmp, "held-%s.inc" % fmt)
                        real_open(held, "wb").write(cc.ConfigFormat.get(fmt).dumps(None, {"y": "held"}))
                        if where in ("root", "chained"):
                            cfg.include = held
                        if where in ("nested", "chained", "nested-flag-off"):
                            cfg.sub.include = held
                        cfg.y = "held"
                    if prior == "dynamic":        # fields the configuration gained on the fly, which the document does not name
                        cfg.extra = 42
                        cfg.sub.more = [1, 2]
                        cfg.load_tree({"loaded_extra": "v"})
                    doc = cc.ConfigFormat.get(fmt).dumps(None, tree)
                    before = W.snapshot(cfg, with_ids=True)
                    builtins.open = guarded_open
                    try:
                        cfg.loads(doc, fmt)
                        raised = None
                    except Exception as exc:  # noqa
                        raised = exc
                    finally:
                        builtins.open = real_open
                        for k in [k for k in os.environ if k.startswith("C06ENV")]:
                            del os.environ[k]
                    ctx.transitions += 1
                    ctx.case((fmt, where, fault, prior), "include:%s:%s" % (fault, "raised" if raised else "returned"), True)
                    case = _case(job, [fmt, where, fault, prior])
                    if raised is None:
                        ctx.violation("C06|include|%s|%s|%s|accepted" % (fmt, where, fault), "include %s (%s) did not make the load fail" % (path, fault), case)
                        continue
                    after = W.snapshot(cfg, with_ids=True)
                    if after != before:
                        ctx.violation("C06|include|%s|%s|%s|changed" % (fmt, where, fault),
                                      "load with an include that is %s raised %r but changed the configuration at %s"
                                      % (fault, raised, W.diff_paths(W.strip_ids(before), W.strip_ids(after))), case)
    ctx.states += 1
    ctx.traces += 1
    ctx.sample({"include_faults": ["missing", "directory", "unreadable", "missing-relative", "unparseable"], "positions": ["root", "nested"]})
