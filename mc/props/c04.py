"""
C04 - each file format decodes what it encodes, types intact, and all formats agree.

All plain-data trees with at most n nodes below the root map are enumerated (skeletons grown by the
"add one node" constructor, every leaf position filled from the scalar alphabet, every key position
varied over the key alphabet) and sent through every (format, options) row; the decoded tree must be
type-exactly equal to the original.
"""
import math
import re

PROP = "C04"
LEVEL = "model_checking"
RULE = ("all tree skeletons up to the node bound x every assignment of the scalar alphabet to the leaves (full alphabet "
        "for <= 2 leaves, reduced alphabets beyond, as recorded in bounds) x key variations x every (format, options) row; "
        "non-trivial = the tree has at least one value that is not a plain ASCII word; distinct = distinct (tree, row)")
ASSUMPTIONS = ["PyYAML, bson, xml.etree/minidom, json and pickle are the codecs under the thin format classes",
               "domain predicates: XML = XML 1.0 Char strings without CR and keys that are XML names without ':'; BSON = 64-bit integers, keys without NUL",
               "the sign of a floating-point zero is not demanded"]

STR_FULL = ["", "1", "1.0", "true", "false", "null", "no", "on", "~", " ", " a ", "a\nb", "\n", "\t", "<&>\"'", "]]>", "#c",
            "k: v", "- x", "[]", "{}", "&a", "*a", "!!str", "é", " ", "\u0085", "\U0001F600", "a", "None", "True", "NaN",
            "nan", "inf", ".inf", "1e5", "0x10", "010", "1_000", "+1", "-", "?", ": ", "a: ", " #x", "'", "\"", "\\", "\\n", "%",
            "@a", "`a`", "a\tb", "  two", "two  ", "<![CDATA[x]]>", "<!--c-->", "&amp;", "=", "y", "N", "2001-01-01", "1:30",
            " ", "a" * 200, "|", ">", "﻿x", "x﻿"]
# text that looks like the surrounding document syntax (runs of blanks after commas, bracketed lists, braces)
STR_FULL += ["Doe,  John", "[ 1,   2 ]", "a,\n   b", "{ \"k\":   1 }", "x:   y", "[\n  1\n]", "1,2", "],  ["]
# empty and white-space-only lines inside a value
STR_FULL += ["a\n\nb", "x\n \ny", "\n\n", "l1\n\t\nl3", "p\n\n\nq  r"]
# what os.fsdecode / sys.argv give for undecodable bytes: a lone surrogate (no UTF-8 encoding, still a str)
STR_FULL += ["caf\udce9.txt", "\ud800"]
NUM_FULL = [None, True, False, 0, 1, -1, 2 ** 31, 2 ** 63 - 1, -2 ** 63, 2 ** 64, 10 ** 30, 0.0, -0.0, 1.5, 1e16, 1e-7,
            float("inf"), float("-inf"), float("nan"), 1e300, 5e-324, 0.1 + 0.2, 1234567.891, 100.0, 1e22, 123456789012345680.0,
            # fractional mantissa with an exponent, exponents ending in 0, negative values
            1.5e+20, 2.5e-10, 6.02e+230, -1.25e+100, 1.5e-300, 1.05e+30, -2.5e-05, 3.0e+100, 120000.0, 1.0e-10]
A_FULL = NUM_FULL + STR_FULL
A_SMALL = [None, True, 0, 1, 1.0, "", "1", "true", "null", " a ", "<&>", "é"]
A_MID = A_SMALL + [False, -1, 2 ** 31, 1e16, float("nan"), float("inf"), "a\nb", "]]>", "- x", "k: v", "~", " ", "#c"]
A_TINY = [None, True, 1, 1.0, "1"]
K_XML = ["a", "item", "type", "_x", "x-y", "x.y", "é", "A", "config", "root"]
K_OTHER = ["", "1", "true", "a b", "null", "~", "on", "a:b", "<k>", "k\n", "1.0", " "]

ROWS = [("json", {}), ("json", {"pretty": False}), ("yaml", {}), ("yaml", {"root_key": "root"}), ("yaml", {"root_key": "a"}),
        ("xml", {}), ("xml", {"root_tag": "cfg"}), ("bson", {}), ("pickle", {})]


# ---------------------------------------------------------------------------------------------
# skeletons: nested lists/dicts with leaf placeholders; grown by adding one node to any container
# ---------------------------------------------------------------------------------------------
LEAF = "<leaf>"


def _copy(x):
    return [] if isinstance(x, list) else ({} if isinstance(x, dict) else x)


def grow(t):
    res = []
    for new in (LEAF, "list", "dict"):
        mk = (lambda: LEAF) if new == LEAF else ((lambda: []) if new == "list" else (lambda: {}))
        res.extend(_insert(t, mk))
    return res


def _insert(t, mk):
    out = []
    if isinstance(t, dict):
        c = dict(t)
        c["k%d" % len(t)] = mk()
        out.append(c)
        for k, v in t.items():
            for sub in _insert(v, mk):
                c = dict(t); c[k] = sub
                out.append(c)
    elif isinstance(t, list):
        out.append(list(t) + [mk()])
        for i, v in enumerate(t):
            for sub in _insert(v, mk):
                c = list(t); c[i] = sub
                out.append(c)
    return out


def skeletons(n):
    level = [{}]
    seen = {repr({})}
    allsk = [{}]
    for _ in range(n):
        nxt = []
        for t in level:
            for g in grow(t):
                r = repr(g)
                if r not in seen:
                    seen.add(r)
                    nxt.append(g)
        allsk.extend(nxt)
        level = nxt
    return allsk


def leaves(t):
    if t == LEAF:
        return 1
    if isinstance(t, dict):
        return sum(leaves(v) for v in t.values())
    if isinstance(t, list):
        return sum(leaves(v) for v in t)
    return 0


def nkeys(t):
    if isinstance(t, dict):
        return len(t) + sum(nkeys(v) for v in t.values())
    if isinstance(t, list):
        return sum(nkeys(v) for v in t)
    return 0


def fill(t, vals, keys=None):
    """substitute leaf values (consumed left to right) and optionally key names (list consumed likewise)"""
    vi = iter(vals)
    ki = iter(keys) if keys is not None else None

    def rec(x):
        if x == LEAF and isinstance(x, str):
            return next(vi)
        if isinstance(x, dict):
            out = {}
            for k, v in x.items():
                kk = next(ki) if ki is not None else k
                out[kk] = rec(v)
            return out
        if isinstance(x, list):
            return [rec(v) for v in x]
        return x
    return rec(t)


# ---------------------------------------------------------------------------------------------
# domains
# ---------------------------------------------------------------------------------------------
_NAME_START = "A-Z_a-zÀ-ÖØ-öø-˿Ͱ-ͽͿ-῿‌-‍⁰-↏Ⰰ-⿯、-퟿豈-﷏ﷰ-�"
_XML_NAME = re.compile("[%s][%s\\-.0-9·̀-ͯ‿-⁀]*" % (_NAME_START, _NAME_START))


def _xml_str(s):
    for ch in s:
        o = ord(ch)
        if not (o == 0x9 or o == 0xA or 0x20 <= o <= 0xD7FF or 0xE000 <= o <= 0xFFFD or 0x10000 <= o <= 0x10FFFF):
            return False
    return True


def representable(t, fmt):
    if isinstance(t, dict):
        for k, v in t.items():
            if fmt == "xml" and not _XML_NAME.fullmatch(k):
                return False
            if fmt == "bson" and "\x00" in k:
                return False
            if not representable(v, fmt):
                return False
        return True
    if isinstance(t, list):
        return all(representable(v, fmt) for v in t)
    if isinstance(t, str):
        if fmt == "xml":
            return _xml_str(t)
        if fmt == "bson":            # BSON strings are UTF-8: a lone surrogate has no encoding
            try:
                t.encode("utf-8")
            except UnicodeError:
                return False
        return True
    if isinstance(t, int) and not isinstance(t, bool) and fmt == "bson":
        return -2 ** 63 <= t <= 2 ** 63 - 1
    return True


def canon(t):
    if t is None:
        return ("N",)
    if isinstance(t, bool):
        return ("b", t)
    if type(t) is int:
        return ("i", t)
    if type(t) is float:
        if math.isnan(t):
            return ("f", "nan")
        if t == 0:
            return ("f", "0")
        return ("f", repr(t))
    if type(t) is str:
        return ("s", t)
    if type(t) is list:
        return ("l",) + tuple(canon(x) for x in t)
    if type(t) is dict:
        return ("d",) + tuple(sorted(((k, canon(v)) for k, v in t.items()), key=repr))
    return ("?", type(t).__name__, repr(t))


# ---------------------------------------------------------------------------------------------
def bounds(tier):
    b = _bounds(tier)
    b["long_lived_format_objects"] = "one per row and job; every %dth (tree, row) in enumeration order goes through it as well" % REUSE_EVERY
    return b


def _bounds(tier):
    if tier == "thorough":
        return {"max_nodes": 4, "leaf_alphabet_by_leaf_count": {"1": "full(%d)" % len(A_FULL), "2": "full x full", "3": "mid(%d)^3" % len(A_MID),
                                                                 "4": "tiny(%d)^4" % len(A_TINY)}, "rows": len(ROWS)}
    return {"max_nodes": 3, "leaf_alphabet_by_leaf_count": {"1": "full(%d)" % len(A_FULL), "2": "full x small + small x full",
                                                             "3": "small(%d)^3" % len(A_SMALL)}, "rows": len(ROWS)}


def jobs(tier):
    n = bounds(tier)["max_nodes"]
    sk = skeletons(n)
    out = []
    for i, s in enumerate(sk):
        L = leaves(s)
        parts = 1
        if tier == "thorough" and L >= 2:
            parts = 8
        elif L >= 3:
            parts = 4
        for p in range(parts):
            out.append({"name": "sk%03d/%d" % (i, p), "skeleton": s, "part": p, "parts": parts, "tier": tier})
    out.append({"name": "wrong-root", "wrongroot": True, "tier": tier})
    out.append({"name": "via-config", "viaconfig": True, "tier": tier})
    out.append({"name": "aliased", "aliased": True, "tier": tier})
    return out


def assignments(L, tier):
    import itertools
    if L == 0:
        return [()]
    if L == 1:
        return [(a,) for a in A_FULL]
    if L == 2:
        if tier == "thorough":
            return list(itertools.product(A_FULL, A_FULL))
        s = list(itertools.product(A_FULL, A_SMALL)) + list(itertools.product(A_SMALL, A_FULL))
        return s
    if L == 3:
        return list(itertools.product(A_MID if tier == "thorough" else A_SMALL, repeat=3))
    return list(itertools.product(A_TINY, repeat=L))


def key_variations(s):
    """for every key position, every key of the alphabet (the others keep distinct plain names)"""
    nk = nkeys(s)
    base = ["k%d" % i for i in range(nk)]
    out = []
    for pos in range(nk):
        for k in K_XML + K_OTHER:
            ks = list(base)
            ks[pos] = k
            out.append(ks)
    return out


def run_job(job, ctx):
    import cincoconfig as cc
    cfg = cc.Schema()()
    single = job.get("single")
    if single and single.get("viaconfig"):
        _via_config(ctx, single.get("only"))
        return
    if single:
        from mc import values as V
        tree = V.dec(single["tree"])
        tree = _to_plain(tree)
        check_tree(ctx, cfg, tree)
        if single.get("wrongroot"):
            _wrong_root(ctx, cfg)
        return
    if job.get("wrongroot"):
        _wrong_root(ctx, cfg)
        return
    if job.get("aliased"):
        _aliased(ctx, cfg)
        return
    if job.get("viaconfig") or (single and single.get("viaconfig")):
        _via_config(ctx, (single or {}).get("only"))
        return
    s = job["skeleton"]
    L = leaves(s)
    asg = assignments(L, job["tier"])
    part = asg[job["part"]::job["parts"]]
    for vals in part:
        check_tree(ctx, cfg, fill(s, vals))
    if job["part"] == 0:
        vals = tuple([A_SMALL[(i * 5 + 3) % len(A_SMALL)] for i in range(L)])
        for ks in key_variations(s):
            check_tree(ctx, cfg, fill(s, vals, ks))
    ctx.states += len(part)
    ctx.depth = max(ctx.depth, L)
    ctx.sample({"skeleton": s, "leaf_assignments": len(part), "rows": len(ROWS)})


def _via_config(ctx, only=None):
    """format options given to Config.dumps / loads / save reach every document of the call - also the ones pulled in
    through an include field - and never change what is decoded"""
    import os
    import cincoconfig as cc
    from mc import values as V
    for fmt, opts in ROWS:
        row = "%s%s" % (fmt, sorted(opts.items()) if opts else "")
        for where in ("root", "nested"):
            ident = [row, where]
            if only is not None and only != ident:
                continue
            s = cc.Schema()
            s.x = cc.IntField(default=1)
            s.y = cc.StringField(default="d")
            s.sub.z = cc.IntField(default=1)
            s.sub.w = cc.StringField(default="d")
            s.include = cc.IncludeField(startdir=ctx.tmp)
            s.sub.inc = cc.IncludeField(startdir=ctx.tmp)
            f = cc.ConfigFormat.get(fmt, **opts)
            child = {"x": 5, "sub": {"w": "from-child"}} if where == "root" else {"z": 7, "w": "from-child"}
            with open(os.path.join(ctx.tmp, "child.inc"), "wb") as fh:
                fh.write(f.dumps(None, child))
            parent = {"y": "parent", "include": "child.inc"} if where == "root" else {"y": "parent", "sub": {"inc": "child.inc", "z": 3}}
            want = {"x": 5, "y": "parent", "sub": {"z": 1, "w": "from-child"}} if where == "root" else {"x": 1, "y": "parent", "sub": {"z": 7, "w": "from-child"}}
            ctx.transitions += 1
            case = {"viaconfig": True, "only": ident, "job": "via-config"}
            try:
                cfg = s()
                cfg.loads(f.dumps(None, parent), fmt, **opts)
                got = {"x": cfg.x, "y": cfg.y, "sub": {"z": cfg.sub.z, "w": cfg.sub.w}}
                # and back out through Config.dumps with the same options: the format object given the options decodes it
                back = f.loads(None, cfg.dumps(fmt, **opts))
                # ... and through Config.save with the same options: the file holds what dumps with the options produces
                spath = os.path.join(ctx.tmp, "saved-with-options.cfg")
                cfg.save(spath, fmt, **opts)
                with open(spath, "rb") as fh:
                    saved = fh.read()
                if fmt != "pickle" and saved != cfg.dumps(fmt, **opts):
                    ctx.violation("C04|via-config|%s|save-ignores-options" % row, "%s: Config.save(..., %s) wrote a document that differs from Config.dumps with the same options" % (row, opts), {"viaconfig": True, "only": ident, "job": "via-config"})
                back_saved = f.loads(None, saved)
                if not isinstance(back_saved, dict) or back_saved.get("y") != "parent":
                    ctx.violation("C04|via-config|%s|saved-not-decodable" % row, "%s: the saved file is not decoded by a format object with the same options: %s" % (row, V.show(back_saved, 80)), {"viaconfig": True, "only": ident, "job": "via-config"})
            except Exception as exc:  # noqa
                ctx.case(("via-config", row, where), "via-config:raises", True)
                ctx.violation("C04|via-config|%s|raises-%s" % (row, type(exc).__name__),
                              "%s: Config.loads of a document that names an include (both written with these options) raised %r" % (row, exc), case)
                continue
            ctx.case(("via-config", row, where), "via-config:%s" % fmt, True)
            if got != want:
                ctx.violation("C04|via-config|%s|mismatch" % row, "%s: loaded %s, expected %s" % (row, got, want), case)
            if not isinstance(back, dict) or back.get("y") != "parent":
                ctx.violation("C04|via-config|%s|dumps-options" % row, "%s: Config.dumps with the options is not decoded by a format object with the same options: %s" % (row, V.show(back, 80)), case)
    # documents of every encoded length over a full cycle of the low length byte, decoded through Config.loads (bytes and
    # text) and through a file: nothing about a document's first or last bytes is "tidied" on the way to the decoder
    if only is None or only == ["sizes"]:
        s = cc.Schema()
        s.k = cc.StringField()
        s.n = cc.IntField()
        for fmt in ("json", "yaml", "xml", "bson", "pickle"):
            f = cc.ConfigFormat.get(fmt)
            for n in range(0, 300):
                for pad in ("x", " "):
                    tree = {"k": pad * n + "y", "n": n}
                    doc = f.dumps(None, tree)
                    ctx.transitions += 1
                    case = {"viaconfig": True, "only": ["sizes"], "job": "via-config"}
                    try:
                        cfg = s()
                        cfg.loads(doc, fmt)
                        got = {"k": cfg.k, "n": cfg.n}
                        path = os.path.join(ctx.tmp, "sized.cfg")
                        with open(path, "wb") as fh:
                            fh.write(doc)
                        cfg2 = s()
                        cfg2.load(path, fmt)
                        got2 = {"k": cfg2.k, "n": cfg2.n}
                    except Exception as exc:  # noqa
                        ctx.violation("C04|via-config|sizes|%s|raises-%s" % (fmt, type(exc).__name__), "a %s document of %d bytes (string of %d characters) raised %r in Config.loads / load" % (fmt, len(doc), n + 1, exc), case)
                        break
                    if got != tree or got2 != tree:
                        ctx.violation("C04|via-config|sizes|%s|mismatch" % fmt, "a %s document of %d bytes decodes as %s / %s" % (fmt, len(doc), V.show(got, 60), V.show(got2, 60)), case)
                        break
            ctx.case(("via-config", "sizes", fmt), "via-config:sizes", True)
    ctx.traces += 1


def _to_plain(t):
    if isinstance(t, dict):
        return {k: _to_plain(v) for k, v in t.items()}
    if isinstance(t, list):
        return [_to_plain(v) for v in t]
    return t


def _interesting(t):
    if isinstance(t, dict):
        return any(not re.fullmatch(r"k\d+", k) or _interesting(v) for k, v in t.items()) or not t
    if isinstance(t, list):
        return any(_interesting(v) for v in t) or not t
    return not (isinstance(t, str) and re.fullmatch(r"[a-z]+", t))


REUSE_EVERY = 5      # the long-lived format objects see every 5th (tree, row) of a job, in enumeration order
_COUNT = [0]
LONG_LIVED = {}      # one format object per row for the whole job: encodes and decodes every tree after the fresh one did


def check_tree(ctx, cfg, tree):
    import cincoconfig as cc
    from mc import values as V
    want = canon(tree)
    decoded = {}
    for fmt, opts in ROWS:
        if not representable(tree, fmt):
            ctx.skipped += 1
            continue
        row = "%s%s" % (fmt, sorted(opts.items()) if opts else "")
        ctx.transitions += 1
        try:
            f = cc.ConfigFormat.get(fmt, **opts)
            data = f.dumps(cfg, tree)
            back = cc.ConfigFormat.get(fmt, **opts).loads(cfg, data)
        except Exception as exc:  # noqa
            ctx.case((row, repr(want)), "row:%s:raises" % fmt, True)
            ctx.violation("C04|%s|raises-%s|%s" % (row, type(exc).__name__, _shape(tree)),
                          "%s: tree %s in the format's domain raised %r" % (row, V.show(tree, 80), exc),
                          {"tree": V.enc(tree), "job": "tree"}, size=len(repr(tree)))
            continue
        ctx.case((row, repr(want)), "row:%s" % fmt, _interesting(tree))
        if type(data) is not bytes:
            ctx.violation("C04|%s|not-bytes" % row, "%s: dumps returned %s" % (row, type(data).__name__), {"tree": V.enc(tree), "job": "tree"})
        got = canon(back)
        decoded[row] = got
        if got != want:
            ctx.violation("C04|%s|mismatch|%s" % (row, _diffkind(tree, back)),
                          "%s: %s decoded as %s" % (row, V.show(tree, 80), V.show(back, 80)),
                          {"tree": V.enc(tree), "job": "tree"}, size=len(repr(tree)))
            continue
        # a decoded tree belongs to the caller: writing into it changes no later decode of the same bytes
        _FRESH[0] += 1
        if _has_empty(tree) or _FRESH[0] % 4 == 0:
            _scribble(back)
            try:
                again = canon(cc.ConfigFormat.get(fmt, **opts).loads(cfg, data))
            except Exception as exc:  # noqa
                again = "raised %r" % (exc,)
            if again != want:
                ctx.violation("C04|%s|decode-after-caller-wrote|%s" % (row, _shape(tree)),
                              "%s: after the caller wrote into the decoded tree, the same bytes decode as %s instead of %s" % (row, V.show(again, 80), V.show(tree, 80)),
                              {"tree": V.enc(tree), "job": "tree"}, size=len(repr(tree)))
        # the same through a format object that has already encoded / decoded other trees (and this one, twice)
        _COUNT[0] += 1
        if _COUNT[0] % REUSE_EVERY:
            continue
        try:
            if row not in LONG_LIVED:
                LONG_LIVED[row] = cc.ConfigFormat.get(fmt, **opts)
            old = LONG_LIVED[row]
            old.dumps(cfg, tree)
            back2 = old.loads(cfg, old.dumps(cfg, tree))
            back3 = cc.ConfigFormat.get(fmt, **opts).loads(cfg, old.dumps(cfg, tree))
        except Exception as exc:  # noqa
            ctx.violation("C04|%s|reused-format-object|raises-%s" % (row, type(exc).__name__),
                          "%s: a format object that was used before raised %r on %s" % (row, exc, V.show(tree, 80)), {"tree": V.enc(tree), "job": "tree"}, size=len(repr(tree)))
            continue
        if canon(back2) != want or canon(back3) != want:
            ctx.violation("C04|%s|reused-format-object|mismatch" % row,
                          "%s: through a format object that was used before, %s decodes as %s / %s" % (row, V.show(tree, 80), V.show(back2, 60), V.show(back3, 60)),
                          {"tree": V.enc(tree), "job": "tree"}, size=len(repr(tree)))
    ctx.traces += 1


_FRESH = [0]


def _has_empty(t):
    if isinstance(t, dict):
        return not t or any(_has_empty(v) for v in t.values())
    if isinstance(t, (list, tuple)):
        return not t or any(_has_empty(v) for v in t)
    return False


def _scribble(t):
    if isinstance(t, dict):
        for v in list(t.values()):
            _scribble(v)
        t["#scribble"] = 1
    elif isinstance(t, list):
        for v in t:
            _scribble(v)
        t.append("#scribble")


def _aliased_trees():
    """acyclic trees in which one container object occurs at several places"""
    out = []
    for mk in (lambda: [], lambda: [1, "x"], lambda: {}, lambda: {"k": 1}, lambda: [[]], lambda: {"k": []}, lambda: [{"k": None}]):
        p = mk(); out.append({"a": p, "b": p})
        p = mk(); out.append({"a": [p, p]})
        p = mk(); out.append({"a": [p, p, p], "b": p})
        p = mk(); out.append({"a": {"x": p}, "b": {"x": p}})
        p = mk(); out.append({"a": p, "b": {"c": {"d": p}}})
        p = mk(); q = {"in": p}; out.append({"a": q, "b": q, "c": p})
    return out


def _aliased(ctx, cfg):
    for tree in _aliased_trees():
        check_tree(ctx, cfg, tree)
    ctx.states += len(_aliased_trees())


def _shape(t):
    if isinstance(t, dict):
        return "{%s}" % ",".join(_shape(v) for v in t.values())
    if isinstance(t, list):
        return "[%s]" % ",".join(_shape(v) for v in t)
    return type(t).__name__


def _diffkind(a, b):
    """where and how the decoded tree differs: first differing position's (expected type -> got type)"""
    if type(a) is not type(b):
        return "%s->%s" % (_leafkind(a), _leafkind(b))
    if isinstance(a, dict):
        if set(a) != set(b):
            return "keyset"
        for k in a:
            if canon(a[k]) != canon(b[k]):
                return _diffkind(a[k], b[k])
    if isinstance(a, list):
        if len(a) != len(b):
            return "listlen"
        for x, y in zip(a, b):
            if canon(x) != canon(y):
                return _diffkind(x, y)
    return "%s-value" % _leafkind(a)


def _leafkind(v):
    if isinstance(v, str):
        if v == "":
            return "emptystr"
        if v != v.strip():
            return "str-ws"
        return "str"
    if isinstance(v, (list, dict)) and not v:
        return "empty" + type(v).__name__
    return type(v).__name__


def _wrong_root(ctx, cfg):
    import cincoconfig as cc
    pairs = [("config", "cfg"), ("cfg", "config"), ("a", "A"), ("config", "config2")]
    for r in ("config", "cfg", "t"):
        pairs += [("x" + r, r), ("my-" + r, r), ("a." + r, r), (r + "x", r), (r + "-1", r), (r.upper(), r), (r, r + "s"), ("_" + r, r)]
        if len(r) > 1:
            pairs += [(r[1:], r), (r[:-1], r), (r, r[1:]), (r, r[:-1])]
    for written, read in pairs:
        for tree in ({}, {"a": 1}, {"cfg": {"config": "x"}}):
            data = cc.ConfigFormat.get("xml", root_tag=written).dumps(cfg, tree)
            ctx.transitions += 1
            try:
                back = cc.ConfigFormat.get("xml", root_tag=read).loads(cfg, data)
                ctx.case(("wrongroot", written, read, repr(tree)), "wrong-root:accepted", True)
                ctx.violation("C04|xml|wrong-root-accepted", "document with root <%s> accepted by a reader expecting <%s>: %r" % (written, read, back),
                              {"tree": {"$": "d", "v": []}, "wrongroot": True, "job": "wrong-root"})
            except Exception:  # noqa
                ctx.case(("wrongroot", written, read, repr(tree)), "wrong-root:rejected", True)
    ctx.states += 1
