"""
C08 - ciphers invert exactly; AES is standard (AES-256-CBC/PKCS7, fresh 16-byte IV first); bad input is rejected.

Exhaustive over: key alphabet x every plaintext length 0..N x byte patterns x methods x decrypting
party (same KeyFile object, new KeyFile object, bare provider object, the independent reference
cipher), and over every proper prefix / 1-2 byte extension of valid AES values, unknown methods and
malformed stored secrets.
"""
import base64
import hashlib
import os
import random

from mc import core
from mc.ref import aes as RA
from mc import values as V

PROP = "C08"
LEVEL = "model_checking"
RULE = ("full product key x plaintext length x byte pattern x method x decrypting party, plus every prefix and "
        "1-2 byte extension of AES values and every malformed stored-secret shape; non-trivial = a non-empty "
        "plaintext or a malformed input; distinct = distinct (key, method, plaintext) or (shape) cases")
ASSUMPTIONS = [
    "mc/ref/aes.py (FIPS-197 / SP 800-38A self-tested) is the standard AES-256-CBC/PKCS7",
    "IV quality is checked as freshness (pairwise distinct over the run), not as statistical randomness",
    "block-aligned truncations of AES values must behave as under the reference PKCS7 check (rejected unless the padding happens to be well formed); lenient base64 is not judged",
]


def keys(tier):
    ks = {
        "zero": bytes(32),
        "ff": b"\xff" * 32,
        "ramp": bytes(range(32)),
        "nul-lead": bytes(4) + bytes(range(100, 128)),
    }
    ks["seedA"] = hashlib.sha256(b"C08-A-%d" % core.SEED).digest()
    ks["ws-edges"] = b" \t" + bytes(range(2, 30)) + b"\r\n"       # keys are raw bytes: white space at either end is key material
    ks["nl-tail"] = bytes(range(70, 101)) + b"\n"
    if tier == "thorough":
        ks["seedB"] = hashlib.sha256(b"C08-B-%d" % core.SEED).digest()
        ks["text"] = b"0123456789abcdef0123456789ABCDEF"
        for i in range(10):
            ks["seed%02d" % i] = hashlib.sha256(b"C08-x-%d-%d" % (core.SEED, i)).digest()
        ks["one-bit"] = bytes(31) + b"\x01"
        ks["high-bit"] = b"\x80" + bytes(31)
    return ks


def patterns(n):
    return {
        "zeros": bytes(n),
        "ff": b"\xff" * n,
        "ramp": bytes((i * 7 + 1) % 256 for i in range(n)),
        "nonutf8": bytes((0xC3, 0x28, 0xFF, 0xFE)[i % 4] for i in range(n)),
    }


def bounds(tier):
    return {"max_len": 1040 if tier == "thorough" else 48, "keys": sorted(keys(tier)), "methods": ["aes", "xor", "best"],
            "patterns": sorted(patterns(1))}


def jobs(tier):
    out = []
    b = bounds(tier)
    for kname in b["keys"]:
        for method in b["methods"]:
            out.append({"name": "rt/%s/%s" % (kname, method), "kind": "roundtrip", "key": kname, "method": method,
                        "max_len": b["max_len"], "tier": tier})
    for kname in b["keys"][:3 if tier == "quick" else None]:
        out.append({"name": "malformed/%s" % kname, "kind": "malformed", "key": kname, "tier": tier})
    out.append({"name": "stored", "kind": "stored", "tier": tier})
    out.append({"name": "no-aes", "kind": "noaes", "tier": tier})
    return out


def _keyfile(ctx, key, name="k.key"):
    from cincoconfig import KeyFile
    if name.startswith("~/"):        # a home-relative name: the object is given the unexpanded spelling
        path = os.path.join(core.home_dir(), name[2:])
        with open(path, "wb") as fh:
            fh.write(key)
        return KeyFile(name), path
    path = os.path.join(ctx.tmp, name)
    with open(path, "wb") as fh:
        fh.write(key)
    return KeyFile(path), path


def run_job(job, ctx):
    single = job.get("single")
    if single:
        job = dict(single["jobparams_full"])
        job["only"] = single["only"]
    kind = job["kind"]
    if kind == "roundtrip":
        _roundtrip(job, ctx)
    elif kind == "malformed":
        _malformed(job, ctx)
    elif kind == "noaes":
        _noaes(job, ctx)
    else:
        _stored(job, ctx)


def _noaes(job, ctx):
    """the optional AES back end reported absent: `best` records the concrete method xor and inverts exactly, `xor`
    is unchanged, `aes` (encrypting, or decrypting a stored aes value) is an error rather than a value"""
    import cincoconfig.encryption as enc_mod
    from cincoconfig.encryption import SecureValue
    only = job.get("only")
    key = keys(job["tier"])["ramp"]
    real = enc_mod.AES_AVAILABLE
    aes_value = None
    kf0, _ = _keyfile(ctx, key, "na0.key")
    with kf0 as c:
        aes_value = c.encrypt(b"made while aes was there", method="aes") if real else None
    enc_mod.AES_AVAILABLE = False
    try:
        for n in (0, 1, 15, 16, 17, 32, 33, 48):
            for pname, p in patterns(n).items():
                for method in ("best", "xor", "aes"):
                    ident = [n, pname, method]
                    if only is not None and only != ident:
                        continue
                    kf, _ = _keyfile(ctx, key, "na.key")
                    ctx.transitions += 1
                    try:
                        with kf as c:
                            sv = c.encrypt(p, method=method)
                            back = c.decrypt(sv)
                        got = ("ok", sv, back)
                    except Exception as exc:  # noqa
                        got = ("raise", exc)
                    ctx.case(("noaes", n, pname, method), "noaes:%s:%s" % (method, got[0]), True)
                    case = _case(job, ident)
                    if method == "aes":
                        if got[0] == "ok":
                            ctx.violation("C08|no-aes|aes|returned-a-value", "without the AES back end, encrypting with method aes returned %r" % (got[1],), case)
                        continue
                    if got[0] != "ok":
                        ctx.violation("C08|no-aes|%s|raises" % method, "without the AES back end, method %s raised %r" % (method, got[1]), case)
                    elif got[1].method != "xor":
                        ctx.violation("C08|no-aes|%s|recorded-method" % method, "recorded method %r" % (got[1].method,), case)
                    elif got[2] != p or got[1].ciphertext != _xor_ref(key, p):
                        ctx.violation("C08|no-aes|%s|not-xor" % method, "the value is not the plaintext XOR the repeated key, or does not invert", case)
        # the set of known methods does not grow when a back end is missing
        for m in ("", None, "des", "AES", 5, "Xor", "best ", "rot13", "aes-256"):
            for opname in ("encrypt", "decrypt", "stored"):
                ident = ["method", repr(m), opname]
                if only is not None and only != ident:
                    continue
                kf, kpath = _keyfile(ctx, key, "na3.key")
                ctx.transitions += 1
                try:
                    if opname == "stored":
                        import cincoconfig as cc
                        sch = cc.Schema()
                        sch.s = cc.SecureField()
                        cfg = cc.Config(sch, key_filename=kpath)
                        cfg.load_tree({"s": {"method": m, "ciphertext": "QUJDREVGR0g="}})
                        got = ("ok", cfg.s)
                    else:
                        with kf as c:
                            got = ("ok", c.encrypt(b"abc", method=m) if opname == "encrypt" else c.decrypt(SecureValue(m, b"x" * 48)))
                except Exception as exc:  # noqa
                    got = ("raise", exc)
                ctx.case(("noaes", "method", repr(m), opname), "noaes:method:%s" % got[0], True)
                if got[0] == "ok":
                    ctx.violation("C08|no-aes|unknown-method|%s|accepted" % opname, "without the AES back end, method %r was accepted by %s: %r" % (m, opname, got[1]), _case(job, ident))
        if aes_value is not None and (only is None or only == ["stored-aes"]):
            kf, _ = _keyfile(ctx, key, "na2.key")
            try:
                with kf as c:
                    got = ("ok", c.decrypt(aes_value))
            except Exception as exc:  # noqa
                got = ("raise", exc)
            ctx.case(("noaes", "stored-aes"), "noaes:stored-aes:%s" % got[0], True)
            if got[0] == "ok":
                ctx.violation("C08|no-aes|stored-aes|returned-a-value", "a stored aes value was decrypted to %r without the AES back end" % (got[1],), _case(job, ["stored-aes"]))
    finally:
        enc_mod.AES_AVAILABLE = real
    ctx.traces += 1
    ctx.sample({"no_aes": True, "lengths": [0, 1, 15, 16, 17, 32, 33, 48]})


def _case(job, only):
    j = {k: v for k, v in job.items() if k not in ("single", "only")}
    return {"jobparams_full": j, "only": only, "job": job["name"]}


def _try_ref(method, key, ct):
    try:
        if method == "xor":
            return _xor_ref(key, ct)
        return RA.cbc_decrypt(key, ct[:16], ct[16:])
    except Exception:  # noqa
        return None


def _xor_ref(key, data):
    return bytes(b ^ key[i % len(key)] for i, b in enumerate(data))


def _roundtrip(job, ctx):
    from cincoconfig import KeyFile
    from cincoconfig.encryption import AesProvider, XorProvider, SecureValue
    allkeys = keys(job["tier"])
    key = allkeys[job["key"]]
    method = job["method"]
    kf, path = _keyfile(ctx, key)
    others = {}
    for n, k in allkeys.items():
        if k != key:
            others[n] = _keyfile(ctx, k, "other-%s.key" % n)[0]
    ivs = set()
    providers = {}
    only = job.get("only")
    for n in range(job["max_len"] + 1):
        for pname, p in patterns(n).items():
            if n == 0 and pname != "zeros":
                continue
            if only and only != [n, pname]:
                continue
            if only in (["sessions"], ["sessions-after-failed-open"]):
                continue
            case = _case(job, [n, pname])
            fp = "C08|%s|len%%16=%d|" % (method, n % 16)

            def bad(what, msg):
                ctx.violation(fp + what, "key %s method %s plaintext %s x %d: %s" % (job["key"], method, pname, n, msg), case, size=n)
            try:
                with kf as ctxk:
                    # (the application re-seeds the shared pseudo-random generator whenever it likes: IVs do not come from it)
                    random.seed(8080)
                    sv = ctxk.encrypt(p, method=method)
                    random.seed(8080)
                    sv2 = ctxk.encrypt(p, method=method)
                    back_same = ctxk.decrypt(sv)
            except Exception as exc:  # noqa
                ctx.case((job["key"], method, n, pname), "roundtrip:raises", True)
                bad("roundtrip-raises", "encrypt/decrypt of a valid plaintext raised %r" % (exc,))
                continue
            ctx.case((job["key"], method, n, pname), "roundtrip:%s" % sv.method, n > 0)
            ctx.transitions += 1
            ctx.states += 1
            if sv.method not in ("aes", "xor"):
                bad("method-not-concrete", "recorded method %r" % (sv.method,))
                continue
            want_method = "xor" if method == "xor" else "aes"
            if sv.method != want_method:
                bad("method-resolution", "method %r recorded as %r" % (method, sv.method))
            if back_same != p:
                bad("roundtrip-same-object", "decrypt(encrypt(p)) != p")
            kf2 = KeyFile(path)
            with kf2 as c2:
                if c2.decrypt(SecureValue(sv.method, sv.ciphertext)) != p:
                    bad("roundtrip-new-keyfile", "a new KeyFile object for the same file does not decrypt to p")
            prov = (AesProvider if sv.method == "aes" else XorProvider)(key)
            if prov.decrypt(sv.ciphertext) != p:
                bad("roundtrip-new-provider", "a new provider object does not decrypt to p")
            # one provider object used for several values (what a caller holding a provider does)
            shared = providers.setdefault(sv.method, (AesProvider if sv.method == "aes" else XorProvider)(key))
            c1, c2 = shared.encrypt(p), shared.encrypt(p)
            if shared.decrypt(c1) != p or prov.decrypt(c2) != p:
                bad("roundtrip-shared-provider", "a provider object used repeatedly does not invert")
            if sv.method == "aes":
                for x in (c1[:16], c2[:16]):
                    if x in ivs:
                        bad("iv-reused|provider-object", "a provider object reused IV %s" % x.hex())
                    ivs.add(x)
                if c1 == c2:
                    bad("equal-ciphertexts|provider-object", "one provider object gave identical ciphertexts for equal plaintexts")
            if sv.method == "aes":
                ct = sv.ciphertext
                if len(ct) != 16 + 16 * (n // 16 + 1):
                    bad("aes-length", "AES value has %d bytes for a %d byte plaintext" % (len(ct), n))
                    continue
                iv, body = ct[:16], ct[16:]
                try:
                    refp = RA.cbc_decrypt(key, iv, body)
                except ValueError as exc:
                    refp = exc
                if refp != p:
                    bad("aes-not-standard", "the reference AES-256-CBC/PKCS7 decrypts the value to %r" % (refp if isinstance(refp, Exception) else refp[:8],))
                elif RA.cbc_encrypt(key, iv, p) != body:
                    bad("aes-not-standard-enc", "reference encryption under the same IV gives different bytes")
                # a value produced by the reference must decrypt in the library (interoperability)
                riv = hashlib.sha256(b"riv%d%s" % (n, pname.encode())).digest()[:16]
                rct = riv + RA.cbc_encrypt(key, riv, p)
                with kf as ctxk:
                    try:
                        got = ctxk.decrypt(SecureValue("aes", rct))
                    except Exception as exc:  # noqa
                        got = exc
                if got != p:
                    bad("aes-interop", "library fails to decrypt a standard AES-256-CBC/PKCS7 value: %r" % (got,))
                for x in (iv, sv2.ciphertext[:16]):
                    if x in ivs:
                        bad("iv-reused", "IV %s was used before" % x.hex())
                    ivs.add(x)
                if sv2.ciphertext == ct:
                    bad("equal-ciphertexts", "two encryptions of one plaintext are identical")
                for oname, okf in others.items():
                    with okf as oc:
                        try:
                            other = oc.decrypt(SecureValue("aes", ct))
                        except Exception:  # noqa
                            other = None
                    if other == p:
                        bad("other-key-decrypts", "key %s yields the plaintext" % oname)
            else:
                if sv.ciphertext != _xor_ref(key, p):
                    bad("xor-not-key-cycle", "XOR output is not p XOR key repeated")
                if prov.encrypt(sv.ciphertext) != p:
                    bad("xor-not-involution", "applying XOR twice is not the identity")
    # one KeyFile object over several sessions with the key file replaced in between: each session uses the key on disk
    for failed_first in (False, True):
        tag = "sessions-after-failed-open" if failed_first else "sessions"
        if only and only != [tag]:
            continue
        okeys = [k for n, k in sorted(allkeys.items()) if k != key][:2]
        kfs, spath = _keyfile(ctx, key, ("~/c08-%s.key" if not failed_first else "%s.key") % tag)
        p = patterns(40)["ramp"]
        prev = None
        if failed_first:
            # the object's first session fails (damaged key file); the file is then repaired
            with open(spath, "wb") as fh:
                fh.write(b"damaged")
            try:
                with kfs as c:
                    c.encrypt(p, method=method)
                ctx.violation("C08|%s|%s|damaged-accepted" % (method, tag), "a 7-byte key file was opened and used", _case(job, [tag]))
            except Exception:  # noqa
                pass
        for si, kbytes in enumerate([key] + okeys + [key]):
            with open(spath, "wb") as fh:
                fh.write(kbytes)
            try:
                with kfs as c:
                    sv = c.encrypt(p, method=method)
                    back = c.decrypt(sv)
                    old = None
                    if prev is not None:
                        try:
                            old = c.decrypt(prev[1])
                        except Exception:  # noqa
                            old = None
            except Exception as exc:  # noqa
                ctx.violation("C08|%s|%s|raises" % (method, tag), "session %d on one KeyFile object raised %r" % (si, exc), _case(job, [tag]))
                break
            ctx.transitions += 1
            ctx.case((job["key"], method, tag, si), "session:%d" % si, True)
            refp = _try_ref(sv.method, kbytes, sv.ciphertext)
            if back != p or refp != p:
                ctx.violation("C08|%s|%s|stale-key" % (method, tag),
                              "session %d of one KeyFile object (key file replaced before it) does not encrypt under the key now on disk" % si, _case(job, [tag]))
            if prev is not None and prev[0] != kbytes and old == p and sv.method == "aes":
                ctx.violation("C08|%s|%s|old-value-still-decrypts" % (method, tag),
                              "a value made under the previous key still decrypts in session %d after the key file was replaced" % si, _case(job, [tag]))
            prev = (kbytes, sv)
    ctx.traces += 1
    ctx.sample({"key": job["key"], "method": method, "lengths": "0..%d" % job["max_len"], "patterns": sorted(patterns(1))})


def _malformed(job, ctx):
    from cincoconfig.encryption import SecureValue
    key = keys(job["tier"])[job["key"]]
    kf, path = _keyfile(ctx, key)
    only = job.get("only")
    lengths = [0, 1, 15, 16, 17, 31, 32, 33] if job["tier"] == "quick" else [0, 1, 5, 15, 16, 17, 31, 32, 33, 47, 48, 64]
    # plaintexts whose block ends look like (inconsistent) padding, so that block-aligned truncations separate a
    # standard PKCS7 check from a lax one
    padlike = [(b"A" * 14 + b"\x03\x02") * 3, (b"B" * 12 + b"\x01\x02\x03\x04") * 2 + b"tail", b"C" * 15 + b"\x10" + b"D" * 15 + b"\x05" + b"x"]
    for n in lengths + ["pad0", "pad1", "pad2"]:
        p = patterns(n)["ramp"] if isinstance(n, int) else padlike[int(n[3:])]
        try:
            with kf as c:
                val = c.encrypt(p, method="aes").ciphertext
        except Exception:  # noqa  (reported by the round-trip jobs)
            ctx.case((job["key"], n, "setup"), "malformed:setup-raises", False)
            continue
        cands = [("prefix", i, val[:i]) for i in range(len(val))] + \
                [("extend", j, val + b"\x00" * j) for j in (1, 2)] + [("extend-ff", 1, val + b"\xff")]
        for what, i, data in cands:
            if only and only != [n, what, i]:
                continue
            must = len(data) < 32 or (len(data) - 16) % 16 != 0
            # the malformed value is decrypted in an inner session that ends through the exception; the outer session of
            # the same object must be unaffected by that
            still = None
            with kf as outer:
                try:
                    with kf as c:
                        got = ("ok", c.decrypt(SecureValue("aes", data)))
                except Exception as exc:  # noqa
                    got = ("raise", exc)
                try:
                    still = outer.decrypt(SecureValue("aes", val)) == p
                except Exception as exc:  # noqa
                    still = exc
            if not must:
                # block aligned: the outcome must be the one of the standard algorithm (reference AES-CBC + PKCS7), whatever it is
                try:
                    ref = ("ok", RA.cbc_decrypt(key, data[:16], data[16:]))
                except Exception:  # noqa
                    ref = ("raise", None)
                if ref[0] != got[0] or (ref[0] == "ok" and ref[1] != got[1]):
                    ctx.violation("C08|aes-decrypt|%s-aligned|differs-from-standard" % what,
                                  "AES value of %d bytes (%s of a %d-byte value): the standard algorithm %s, the library %s"
                                  % (len(data), what, len(val), "returns %r" % (ref[1][:12],) if ref[0] == "ok" else "rejects it (bad padding)",
                                     "returns %r" % (got[1][:12],) if got[0] == "ok" else "raises %r" % (got[1],)), _case(job, [n, what, i]), size=len(data))
            if still is not True:
                ctx.violation("C08|aes-decrypt|outer-session-broken", "after an inner session failed on a malformed value, the still-open outer session gives %r for a valid one" % (still,),
                              _case(job, [n, what, i]), size=len(data))
            ctx.case((job["key"], n, what, i), "malformed:%s:%s" % (what, got[0] if must else "aligned-" + got[0]), True)
            ctx.transitions += 1
            ctx.states += 1
            if must and got[0] == "ok":
                kindlen = "short" if len(data) < 32 else "unaligned"
                ctx.violation("C08|aes-decrypt|%s-%s|accepted" % (what, kindlen),
                              "AES value of %d bytes (%s of a %d-byte value) decrypted to %r instead of raising"
                              % (len(data), what, len(val), got[1][:8]), _case(job, [n, what, i]), size=len(data))
    for m in ("", None, "des", "AES", 5, "Xor", "best "):
        if only and only != ["method", repr(m)]:
            continue
        for opname in ("encrypt", "decrypt"):
            with kf as c:
                try:
                    if opname == "encrypt":
                        got = ("ok", c.encrypt(b"abc", method=m))
                    else:
                        got = ("ok", c.decrypt(SecureValue(m, b"x" * 48)))
                except Exception as exc:  # noqa
                    got = ("raise", exc)
            ctx.case((job["key"], "method", repr(m), opname), "method:%s" % got[0], True)
            if got[0] == "ok":
                ctx.violation("C08|%s|unknown-method|accepted" % opname, "method %r accepted by %s: %r" % (m, opname, got[1]),
                              _case(job, ["method", repr(m)]))
    ctx.traces += 1
    ctx.sample({"key": job["key"], "every_prefix_of_aes_values_for_plaintext_lengths": lengths})


STORED_BAD = [
    ("int", 5), ("float", V.F(1.5)), ("list", []), ("list1", ["x"]), ("true", True),
    ("empty-dict", V.D()), ("no-method", V.D(("ciphertext", "QUJD"))), ("method-none", V.D(("method", None), ("ciphertext", "QUJD"))),
    ("method-empty", V.D(("method", ""), ("ciphertext", "QUJD"))), ("method-unknown", V.D(("method", "des"), ("ciphertext", "QUJD"))),
    ("method-upper", V.D(("method", "AES"), ("ciphertext", "QUJD" * 12))),
    ("no-ciphertext", V.D(("method", "xor"))), ("ciphertext-none", V.D(("method", "xor"), ("ciphertext", None))),
    ("ciphertext-int", V.D(("method", "xor"), ("ciphertext", 5))), ("ciphertext-list", V.D(("method", "xor"), ("ciphertext", ["QUJD"]))),
    ("ciphertext-bytes", V.D(("method", "xor"), ("ciphertext", V.Y(b"QUJD")))),
    ("b64-bad-padding", V.D(("method", "xor"), ("ciphertext", "QUJ"))), ("b64-bad-padding-aes", V.D(("method", "aes"), ("ciphertext", "QUJDR"))),
    ("non-ascii", V.D(("method", "xor"), ("ciphertext", "éééé"))),
    ("aes-too-short", V.D(("method", "aes"), ("ciphertext", base64.b64encode(b"x" * 31).decode()))),
    ("aes-unaligned", V.D(("method", "aes"), ("ciphertext", base64.b64encode(b"x" * 41).decode()))),
    ("aes-empty", V.D(("method", "aes"), ("ciphertext", ""))),
    ("method-int", V.D(("method", 5), ("ciphertext", "QUJD"))),
    ("xor-not-utf8", V.D(("method", "xor"), ("ciphertext", base64.b64encode(bytes(b ^ k for b, k in zip(b"\xff\xfe\xc3(", bytes(range(32))))).decode()))),
    ("aes-not-utf8", V.D(("method", "aes"), ("ciphertext", base64.b64encode(bytes(range(16)) + RA.cbc_encrypt(bytes(range(32)), bytes(range(16)), b"\xff\xfe\xc3( not text")).decode()))),
]


def _stored(job, ctx):
    import cincoconfig as cc
    only = job.get("only")
    keyp = os.path.join(ctx.tmp, "s.key")
    open(keyp, "wb").write(bytes(range(32)))
    for fmethod in ("aes", "xor", "best"):
        for name, spec in STORED_BAD:
            for route in ("to_python", "load_tree", "list-item"):
                if only and only != [fmethod, name, route]:
                    continue
                schema = cc.Schema()
                schema.s = cc.SecureField(method=fmethod)
                schema.l = cc.ListField(cc.SecureField(method=fmethod))
                cfg = cc.Config(schema, key_filename=keyp)
                val = V.dec(spec)
                try:
                    if route == "to_python":
                        got = ("ok", schema._fields["s"].to_python(cfg, val))
                    elif route == "load_tree":
                        cfg.load_tree({"s": val})
                        got = ("ok", cfg.s)
                    else:
                        cfg.load_tree({"l": [val]})
                        got = ("ok", list(cfg.l))
                except Exception as exc:  # noqa
                    got = ("raise", exc)
                ctx.case((fmethod, name, route), "stored:%s:%s" % (route, got[0] if got[0] == "ok" else type(got[1]).__name__), True)
                ctx.transitions += 1
                ctx.states += 1
                case = _case(job, [fmethod, name, route])
                if got[0] == "ok":
                    ctx.violation("C08|stored|%s|%s|accepted" % (name, route),
                                  "stored secret %s (%s) via %s returned %r instead of an error" % (name, V.show(val, 50), route, got[1]), case)
                elif route != "to_python" and not isinstance(got[1], cc.ValidationError):
                    ctx.violation("C08|stored|%s|%s|not-validation-error" % (name, route),
                                  "loading stored secret %s raised %s, not a ValidationError" % (name, type(got[1]).__name__), case)
                elif route == "to_python" and not isinstance(got[1], (ValueError, TypeError, cc.ValidationError)):
                    ctx.violation("C08|stored|%s|%s|odd-error" % (name, route),
                                  "to_python(%s) raised %s" % (name, type(got[1]).__name__), case)
    # one schema, several configurations with different key files: a value saved under K1 must never come back as the
    # plaintext in a configuration that uses K2 - whatever was loaded before through the same schema
    key2 = os.path.join(ctx.tmp, "s2.key")
    open(key2, "wb").write(bytes(255 - i for i in range(32)))
    for fmethod in ("aes", "xor", "best"):
        for order in ("wrong-first", "right-first", "right-twice-then-wrong", "same-object-rekeyed"):
            for where in ("field", "list", "nested"):
                if only and only != ["crosskey", fmethod, order, where]:
                    continue
                schema = cc.Schema()
                schema.s = cc.SecureField(method=fmethod)
                schema.l = cc.ListField(cc.SecureField(method=fmethod))
                schema.sub.s = cc.SecureField(method=fmethod)
                secret = "cross-key-secret-%s" % where
                src = cc.Config(schema, key_filename=keyp)
                if where == "field":
                    src.s = secret
                elif where == "list":
                    src.l = [secret]
                else:
                    src.sub.s = secret
                try:
                    doc = src.dumps("json")
                except Exception as exc:  # noqa
                    ctx.violation("C08|crosskey|%s|setup-raises" % fmethod, "saving a configuration with a secret (%s) raised %r" % (where, exc),
                                  {"jobparams_full": {k: v for k, v in job.items() if k not in ("single", "only")}, "only": ["crosskey", fmethod, order, where], "job": job["name"]})
                    continue

                def load_with(keyfile, cfg=None):
                    c = cfg or cc.Config(schema, key_filename=keyfile)
                    if cfg is not None:
                        c._key_filename = keyfile
                    try:
                        c.loads(doc, "json")
                    except Exception as exc:  # noqa
                        return ("raise", exc)
                    v = c.s if where == "field" else (c.l[0] if where == "list" else c.sub.s)
                    return ("ok", v)
                if order == "wrong-first":
                    got = load_with(key2)
                elif order == "right-first":
                    load_with(keyp)
                    got = load_with(key2)
                elif order == "right-twice-then-wrong":
                    load_with(keyp); load_with(keyp)
                    got = load_with(key2)
                else:
                    c = cc.Config(schema, key_filename=keyp)
                    load_with(keyp, c)
                    got = load_with(key2, c)
                ctx.transitions += 1
                ctx.states += 1
                ctx.case(("crosskey", fmethod, order, where), "crosskey:%s:%s" % (order, got[0]), True)
                if got[0] == "ok" and got[1] == secret:
                    ctx.violation("C08|crosskey|%s|%s|%s" % (fmethod, order, where),
                                  "a secret saved under one key file was read back in clear by a configuration using a different key file (%s, %s)" % (order, where),
                                  _case(job, ["crosskey", fmethod, order, where]))
    # a value that was loaded is encrypted again by every save: fresh IV each time, and under the key file the
    # configuration has at that moment
    import json as _json
    keyb, key2b = bytes(range(32)), bytes(255 - i for i in range(32))
    for fmethod in ("aes", "xor", "best"):
        for where in ("field", "list", "nested", "item"):
            for format in ("json", "yaml"):
                ident = ["resave", fmethod, where, format]
                if only and only != ident:
                    continue
                schema = cc.Schema()
                schema.s = cc.SecureField(method=fmethod)
                schema.l = cc.ListField(cc.SecureField(method=fmethod))
                schema.sub.s = cc.SecureField(method=fmethod)
                item_schema = cc.Schema()
                item_schema.s = cc.SecureField(method=fmethod)
                schema.items = cc.ListField(item_schema)          # the secret sits in an item of a list of configurations
                secret = "resaved-secret-%s" % where
                tree = {"s": secret} if where == "field" else ({"l": [secret]} if where == "list" else ({"sub": {"s": secret}} if where == "nested" else {"items": [{"s": secret}]}))
                case = _case(job, ident)
                fp = "C08|resave|%s|%s|" % (fmethod, where)

                def stored_of(cfg):
                    t = _json.loads(cfg.dumps("json"))
                    v = t["s"] if where == "field" else (t["l"][0] if where == "list" else (t["sub"]["s"] if where == "nested" else t["items"][0]["s"]))
                    return v["method"], base64.b64decode(v["ciphertext"])
                try:
                    src = cc.Config(schema, key_filename=keyp)
                    src.load_tree(tree)
                    doc = src.dumps(format)
                    cfg = cc.Config(schema, key_filename=keyp)
                    cfg.loads(doc, format)
                    seen = [stored_of(src), stored_of(cfg), stored_of(cfg)]
                    doc2 = cfg.dumps(format)
                    cfg2 = cc.Config(schema, key_filename=keyp)
                    cfg2.loads(doc2, format)
                    seen.append(stored_of(cfg2))
                    cfg._key_filename = key2
                    rekeyed = stored_of(cfg)
                except Exception as exc:  # noqa
                    ctx.violation(fp + "raises", "load, save, save, re-key, save of a %s secret raised %r" % (where, exc), case)
                    continue
                ctx.transitions += 5
                ctx.states += 1
                ctx.case(("resave", fmethod, where, format), "resave:%s" % seen[0][0], True)
                want_method = "xor" if fmethod == "xor" else "aes"
                for i, (m, ct) in enumerate(seen):
                    if m != want_method or _try_ref(m, keyb, ct) != secret.encode():
                        ctx.violation(fp + "not-under-current-key", "save #%d after a load wrote a value that the reference %s does not decrypt to the secret under the configuration's key" % (i, want_method), case)
                        break
                if want_method == "aes" and len({ct[:16] for _, ct in seen}) != len(seen):
                    ctx.violation(fp + "iv-reused", "saves of a loaded, unchanged secret reused an IV: %s" % [ct[:16].hex() for _, ct in seen], case)
                if rekeyed[0] != want_method or _try_ref(rekeyed[0], key2b, rekeyed[1]) != secret.encode():
                    ctx.violation(fp + "rekeyed-not-under-new-key", "after the configuration got another key file the saved value does not decrypt under that key file", case)
    ctx.traces += 1
    ctx.sample({"stored_shapes": [n for n, _ in STORED_BAD], "routes": ["to_python", "load_tree", "list-item"]})
