"""
C18 - including files is a deep merge in the including scope, included values win.

(law)  all ordered pairs of trees over keys {a,b,c} / leaves {1,2,None,"x",[]} up to the node bound
       through IncludeField.combine_trees against a reference merge, with purity of both arguments;
(equiv) every assignment of {absent, v1, v2} to the leaves of the including and the included
       document, through real files, for include fields at the root, in a nested schema, in both,
       chained, and two in one scope; path forms relative/absolute/missing/directory; start
       directory configured or cwd.  load(including file) must equal load_tree(reference merge).
"""
import copy
import itertools
import json
import os
import pickle

from mc import values as V

PROP = "C18"
LEVEL = "model_checking"
RULE = ("law: every ordered pair of trees within the node bound; equivalence: full product of leaf assignments on both "
        "sides x schema variant x format x path form; non-trivial = the two trees share at least one key or one is "
        "nested; distinct = distinct (base, child) pairs / (variant, format, main, included) cases")
ASSUMPTIONS = ["reference merge in this module", "documents are written with json/yaml/bson/pickle directly and with the library's XML writer"]

KEYS = ["a", "b", "c"]
LEAVES = [1, 2, None, "x", [], True, 1.0]


def trees(n, depth=3, leaves=None):
    global LEAVES
    saved = LEAVES
    if leaves is not None:
        LEAVES = leaves
    try:
        return _trees(n, depth)
    finally:
        LEAVES = saved


def _trees(n, depth=3):
    """all dict trees with at most n nodes (a node = one key), nesting depth <= depth"""
    memo = {}

    def dicts(budget, d):
        # all dicts using at most `budget` nodes
        key = (budget, d)
        if key in memo:
            return memo[key]
        res = [{}]
        # choose keys in order a<b<c to avoid duplicates; each key absent or with a value
        def rec(ki, budget_left, cur):
            if ki == len(KEYS):
                return
            k = KEYS[ki]
            # absent
            rec(ki + 1, budget_left, cur)
            if budget_left >= 1:
                for leaf in LEAVES:
                    c = dict(cur); c[k] = copy.deepcopy(leaf)
                    res.append(c)
                    rec(ki + 1, budget_left - 1, c)
                if d > 1:
                    for used in range(0, budget_left):
                        for sub in dicts(used, d - 1):
                            if _nodes(sub) != used:
                                continue
                            c = dict(cur); c[k] = copy.deepcopy(sub)
                            res.append(c)
                            rec(ki + 1, budget_left - 1 - used, c)
        rec(0, budget, {})
        # dedupe
        seen, out = set(), []
        for t in res:
            r = json.dumps(t, sort_keys=True)
            if r not in seen:
                seen.add(r)
                out.append(t)
        memo[key] = out
        return out
    return dicts(n, depth)


def _nodes(t):
    return sum(1 + (_nodes(v) if isinstance(v, dict) else 0) for v in t.values())


def ref_merge(base, child):
    out = {}
    for k, v in base.items():
        out[k] = v
    for k, v in child.items():
        if k in base and isinstance(base[k], dict) and isinstance(v, dict):
            out[k] = ref_merge(base[k], v)
        else:
            out[k] = v
    return out


def bounds(tier):
    return {"law_max_nodes": 4 if tier == "thorough" else 3, "law_leaves": [1, True, None],
            "law3_max_nodes": 3 if tier == "thorough" else None, "law3_leaves": LEAVES, "law2_max_nodes": 2, "law2_leaves": LEAVES + [0, False, 0.0, [1], [True]], "equiv_formats": ["json", "yaml", "xml", "bson", "pickle"] if tier == "thorough" else ["json", "yaml"],
            "equiv_leaf_values": ["absent", "v1", "v2"], "equiv_variants": VARIANTS}


VARIANTS = ["root", "nested", "both", "two-in-scope", "two-in-scope-aba", "two-in-scope-samename", "chain", "two-in-scope-override", "two-in-scope-introduce", "two-in-scope-null", "depth2", "depth2-plain-between"]


def jobs(tier):
    b = bounds(tier)
    out = []
    n = 32 if tier == "thorough" else 8
    for c in range(n):
        out.append({"name": "law/%02d" % c, "kind": "law", "n": b["law_max_nodes"], "leaves": b["law_leaves"], "part": c, "parts": n})
    if b["law3_max_nodes"]:
        for c in range(32):
            out.append({"name": "law3/%02d" % c, "kind": "law", "n": b["law3_max_nodes"], "leaves": b["law3_leaves"], "part": c, "parts": 32})
    for c in range(4):
        out.append({"name": "law2/%02d" % c, "kind": "law", "n": b["law2_max_nodes"], "leaves": b["law2_leaves"], "part": c, "parts": 4})
    for fmt in b["equiv_formats"]:
        for var in VARIANTS:
            for sd in ("cwd", "startdir"):
                out.append({"name": "equiv/%s/%s/%s" % (fmt, var, sd), "kind": "equiv", "fmt": fmt, "variant": var, "startdir": sd, "tier": tier})
    for fmt, opts in (("yaml", {"root_key": "CFG"}), ("xml", {"root_tag": "settings"}), ("json", {"pretty": False})):
        for var in ("root", "nested", "chain"):
            out.append({"name": "equiv-opts/%s/%s" % (fmt, var), "kind": "equiv", "fmt": fmt, "variant": var, "startdir": "startdir", "tier": "quick", "opts": opts})
        out.append({"name": "paths/%s" % fmt, "kind": "paths", "fmt": fmt})
    if tier != "thorough":      # the binary / markup formats on the two basic variants (all variants in the thorough tier)
        for fmt, var in (("bson", "root"), ("bson", "nested"), ("xml", "root"), ("pickle", "nested")):
            out.append({"name": "equiv/%s/%s/startdir" % (fmt, var), "kind": "equiv", "fmt": fmt, "variant": var, "startdir": "startdir", "tier": tier})
    for fmt in (["json", "yaml", "xml", "bson", "pickle"] if tier == "thorough" else ["bson", "json", "pickle"]):
        out.append({"name": "sizes/%s" % fmt, "kind": "sizes", "fmt": fmt})
    out.append({"name": "law-aliased", "kind": "law-aliased"})
    for var in GROWN:
        for fmt in (b["equiv_formats"] if tier == "thorough" else ["json"]):
            out.append({"name": "equiv/%s/%s/startdir" % (fmt, var), "kind": "equiv", "fmt": fmt, "variant": var, "startdir": "startdir", "tier": tier})
    return out


def run_job(job, ctx):
    single = job.get("single")
    if single:
        if single["kind"] == "law":
            _law_pair(ctx, V.dec(single["base"]), V.dec(single["child"]))
        else:
            j = dict(single["jobparams_full"]); j["only"] = single["only"]
            {"equiv": _equiv, "sizes": _sizes, "law-aliased": _law_aliased}.get(j["kind"], _paths)(j, ctx)
        return
    if job["kind"] == "law":
        ts = trees(job["n"], leaves=job["leaves"])
        mine = ts[job["part"]::job["parts"]]
        for base in mine:
            for child in ts:
                _law_pair(ctx, base, child)
        ctx.states += len(mine)
        ctx.sample({"base": mine[-1], "child": ts[-1]})
    elif job["kind"] == "equiv":
        _equiv(job, ctx)
    elif job["kind"] == "sizes":
        _sizes(job, ctx)
    elif job["kind"] == "law-aliased":
        _law_aliased(job, ctx)
    else:
        _paths(job, ctx)


def _plain(t):
    return json.dumps(t, sort_keys=True)


def _law_pair(ctx, base, child):
    import cincoconfig as cc
    f = cc.IncludeField()
    b0, c0 = copy.deepcopy(base), copy.deepcopy(child)
    want = ref_merge(b0, c0)
    ctx.transitions += 1
    share = bool(set(base) & set(child))
    ctx.case((_plain(base), _plain(child)), "law:" + ("overlap" if share else "disjoint"), share or any(isinstance(v, dict) for v in list(base.values()) + list(child.values())))
    case = {"kind": "law", "base": V.enc(base), "child": V.enc(child), "job": "law"}
    try:
        got = f.combine_trees(base, child)
    except Exception as exc:  # noqa
        ctx.violation("C18|law|raises", "combine_trees(%s, %s) raised %r" % (base, child, exc), case, size=len(_plain(base) + _plain(child)))
        return
    kind = _conflict_kind(b0, c0)
    if V.canon(got) != V.canon(want):
        ctx.violation("C18|law|result|" + kind, "combine_trees(%s, %s) = %s, expected %s" % (b0, c0, got, want), case, size=len(_plain(b0) + _plain(c0)))
    if V.canon(base) != V.canon(b0):
        ctx.violation("C18|law|base-mutated|" + kind, "combine_trees mutated its first argument: %s -> %s" % (b0, base), case, size=len(_plain(b0) + _plain(c0)))
    if V.canon(child) != V.canon(c0):
        ctx.violation("C18|law|child-mutated|" + kind, "combine_trees mutated its second argument: %s -> %s" % (c0, child), case, size=len(_plain(b0) + _plain(c0)))


def _aliased_bases():
    """base trees in which one map object occurs at two places (what YAML anchors / aliases and pickle decode to)"""
    out = []
    for mi, mk in enumerate((lambda: {"k": 1}, lambda: {"k": {"j": 1}, "n": 2}, lambda: {})):
        for si in range(4):
            m = mk()
            if si == 0:
                base = {"a": m, "b": m}
            elif si == 1:
                base = {"a": m, "b": {"c": m}}
            elif si == 2:
                base = {"a": {"x": m, "y": m}, "b": 1}
            else:
                base = {"a": m, "l": [m], "b": m}
            out.append(((mi, si), base))
    return out


def _law_aliased(job, ctx):
    import cincoconfig as cc
    only = job.get("only")
    children = trees(2, leaves=[1, None]) + [{"a": {"k": 2}}, {"a": {"k": {"j": 2}}}, {"b": {"c": {"k": 3}}}, {"a": {"x": {"k": 4}}}, {"a": {"new": 1}}]
    for ident, _ in _aliased_bases():
        for ci, child in enumerate(children):
            if only is not None and only != [list(ident), ci]:
                continue
            base = dict(_aliased_bases())[ident]
            f = cc.IncludeField()
            want = ref_merge(json.loads(json.dumps(base)), copy.deepcopy(child))       # the same tree without any sharing
            b0 = json.loads(json.dumps(base))
            ctx.transitions += 1
            ctx.case(("aliased", ident, ci), "law-aliased", True)
            case = {"kind": "law-aliased", "jobparams_full": {k: v for k, v in job.items() if k not in ("single", "only")}, "only": [list(ident), ci], "job": job["name"]}
            try:
                got = f.combine_trees(base, copy.deepcopy(child))
            except Exception as exc:  # noqa
                ctx.violation("C18|law-aliased|raises", "combine_trees(%s, %s) raised %r" % (base, child, exc), case)
                continue
            if V.canon(got) != V.canon(want):
                ctx.violation("C18|law-aliased|result", "the base tree %s holds one map object at two places; combine_trees(base, %s) = %s, expected %s" % (b0, child, got, want), case)
            if V.canon(base) != V.canon(b0):
                ctx.violation("C18|law-aliased|base-mutated", "combine_trees mutated its first argument: %s -> %s" % (b0, base), case)
    # maps as some readers deliver them: subclasses of dict (an ordered map written by another program comes back from the
    # YAML and pickle readers as collections.OrderedDict); a map is a map
    import collections

    def od(t):
        return collections.OrderedDict((k, od(v)) for k, v in t.items()) if isinstance(t, dict) else t
    bases = [{"a": {"k": 1, "m": 2}, "b": 1}, {"a": {"x": {"k": 1, "m": 2}, "y": 3}}, {"b": {"c": {"k": 1}, "d": 2}, "a": 5}]
    for bi, base in enumerate(bases):
        for ci, child in enumerate(children):
            for conv in ("base", "child", "both"):
                ident = ["mapclass", bi, ci, conv]
                if only is not None and only != ident:
                    continue
                b = od(base) if conv in ("base", "both") else copy.deepcopy(base)
                c = od(child) if conv in ("child", "both") else copy.deepcopy(child)
                want = ref_merge(copy.deepcopy(base), copy.deepcopy(child))
                ctx.transitions += 1
                ctx.case(("mapclass", bi, ci, conv), "law-mapclass:" + conv, True)
                case = {"kind": "law-aliased", "jobparams_full": {k: v for k, v in job.items() if k not in ("single", "only")}, "only": ident, "job": job["name"]}
                try:
                    got = json.loads(json.dumps(cc.IncludeField().combine_trees(b, c)))
                except Exception as exc:  # noqa
                    ctx.violation("C18|law-mapclass|raises", "combine_trees on ordered maps raised %r" % (exc,), case)
                    continue
                if got != want:
                    ctx.violation("C18|law-mapclass|result|" + conv, "with %s given as ordered maps, combine_trees(%s, %s) = %s, expected %s" % (conv, base, child, got, want), case)
    # keys that are not text (what YAML and pickle documents can carry): numbers, None, tuples - on either side
    keyed = [({"a": {1: "x", 2: "y"}, "b": 1}, {"a": {2: "z", 3: "w"}}), ({"a": {"k": 1}}, {"a": {None: 2, (1, 2): 3}, 7: 8}), ({1: {2: {3: 4}}}, {1: {2: {5: 6}}}),
             ({None: {"k": 1}, "b": 2}, {None: {"j": 2}}), ({"a": 1}, {2.5: {"k": 1}, True: 3})]
    for ki, (base, child) in enumerate(keyed):
        ident = ["keys", ki]
        if only is not None and only != ident:
            continue
        b0, c0 = copy.deepcopy(base), copy.deepcopy(child)
        want = ref_merge(b0, c0)
        ctx.transitions += 1
        ctx.case(("keys", ki), "law-keys", True)
        case = {"kind": "law-aliased", "jobparams_full": {k: v for k, v in job.items() if k not in ("single", "only")}, "only": ident, "job": job["name"]}
        try:
            got = cc.IncludeField().combine_trees(base, child)
        except Exception as exc:  # noqa
            ctx.violation("C18|law-keys|raises", "combine_trees(%s, %s) raised %r" % (b0, c0, exc), case)
            continue
        if got != want or base != b0 or child != c0:
            ctx.violation("C18|law-keys|result", "combine_trees(%s, %s) = %s, expected %s (inputs afterwards: %s, %s)" % (b0, c0, got, want, base, child), case)
    ctx.sample({"aliased_bases": len(_aliased_bases()), "children": len(children)})


def _conflict_kind(b, c):
    kinds = set()

    def rec(x, y, d):
        for k in y:
            if k in x:
                xd, yd = isinstance(x[k], dict), isinstance(y[k], dict)
                if xd and yd:
                    kinds.add("map-map@%d" % d)
                    rec(x[k], y[k], d + 1)
                elif xd or yd:
                    kinds.add("map-leaf@%d" % d)
                else:
                    kinds.add("leaf-leaf@%d" % d)
            else:
                kinds.add("new-key@%d" % d)
    rec(b, c, 0)
    return ",".join(sorted(kinds)) or "none"


# ---------------------------------------------------------------------------------------------
# equivalence through real files
# ---------------------------------------------------------------------------------------------
def _write(fmt, path, tree, opts=None):
    import cincoconfig as cc
    if opts:
        data = cc.ConfigFormat.get(fmt, **opts).dumps(None, tree)
        with open(path, "wb") as fh:
            fh.write(data)
        return data
    if fmt == "json":
        data = json.dumps(tree).encode()
    elif fmt == "yaml":
        import yaml
        data = yaml.safe_dump(tree).encode()
    elif fmt == "bson":
        import bson
        data = bson.dumps(tree)
    elif fmt == "pickle":
        data = pickle.dumps(tree)
    else:
        data = cc.ConfigFormat.get("xml").dumps(None, tree)
    with open(path, "wb") as fh:
        fh.write(data)
    return data


GROWN = {"grown-nested-item": "nested", "grown-root-item": "root", "grown-nested-attr": "nested",
         "shared-field-object": "both",      # one IncludeField object mounted in two scopes under different keys
         "flag-off-nested": "both",          # the nested section carries a feature flag that the including document sets false: its includes are merged all the same
         "env-bound": "both"}                # the schema sits under an environment prefix and the include fields' own variables are set


def _schema(variant, startdir, grown=None):
    import cincoconfig as cc
    if grown == "env-bound":
        # (the variables name an existing, empty document: what an include *field* holds is one thing, which files the
        # document pulls in is another)
        s = cc.Schema(env="C18E")
        s.x = cc.IntField(); s.y = cc.StringField(); s.first.q = cc.IntField(); s.sub.z = cc.IntField(); s.sub.w = cc.StringField()
        s.ul = cc.ListField(); s.ud = cc.DictField(); s.sub.ul = cc.ListField(); s.sub.deep.v = cc.IntField(); s.sub.deep.t = cc.StringField()
        kw = {"startdir": startdir} if startdir else {}
        s.include = cc.IncludeField(**kw)
        s.sub.inc = cc.IncludeField(**kw)
        return s
    if grown == "flag-off-nested":
        s = _schema("both", startdir)
        s.sub.enabled = cc.FeatureFlagField(default=True)
        return s
    if grown == "shared-field-object":
        s = _schema("none", startdir)
        inc = cc.IncludeField(**({"startdir": startdir} if startdir else {}))
        s.include = inc
        s.sub.inc = inc
        return s
    if grown:
        # the include field joins the schema only after the schema has served a first document load
        s = _schema("none", startdir)
        s().loads(b"{}", "json")
        kw = {"startdir": startdir} if startdir else {}
        if grown == "grown-nested-item":
            s["sub.inc"] = cc.IncludeField(**kw)
        elif grown == "grown-nested-attr":
            s.sub.inc = cc.IncludeField(**kw)
        else:
            s["include"] = cc.IncludeField(**kw)
        return s
    s = cc.Schema()
    s.x = cc.IntField()
    s.y = cc.StringField()
    s.first.q = cc.IntField()      # an earlier-declared sibling section that the documents never mention
    s.sub.z = cc.IntField()
    s.sub.w = cc.StringField()
    s.ul = cc.ListField()          # untyped containers: their values are stored as parsed
    s.ud = cc.DictField()
    s.sub.ul = cc.ListField()
    kw = {"startdir": startdir} if startdir else {}
    if variant in ("root", "both", "chain") or variant.startswith("two-in-scope"):
        s.include = cc.IncludeField(**kw)
    if variant == "two-in-scope-samename" and startdir:
        s.include2 = cc.IncludeField(startdir=os.path.join(startdir, "alt"))       # same relative name, another start directory
    elif variant.startswith("two-in-scope"):
        s.include2 = cc.IncludeField(**kw)
    if variant == "two-in-scope-aba":
        s.include3 = cc.IncludeField(**kw)
    if variant in ("nested", "both", "chain"):
        s.sub.inc = cc.IncludeField(**kw)
    s.sub.deep.v = cc.IntField()
    s.sub.deep.t = cc.StringField()
    if variant in ("depth2", "depth2-plain-between"):
        s.sub.deep.inc2 = cc.IncludeField(**kw)
        if variant == "depth2":
            s.sub.inc = cc.IncludeField(**kw)
    return s


LEAFVALS = {"x": [None, 1, 2], "y": [None, "p", "q"], "z": [None, 10, 20], "w": [None, "s", "t"]}


def _mk(x, y, z, w, nested_only=False):
    if nested_only:
        t = {}
        if z is not None:
            t["z"] = z
        if w is not None:
            t["w"] = w
        return t
    t = {}
    if x is not None:
        t["x"] = x
    if y is not None:
        t["y"] = y
    sub = {}
    if z is not None:
        sub["z"] = z
    if w is not None:
        sub["w"] = w
    if sub:
        t["sub"] = sub
    return t


def _case(job, only):
    return {"kind": "equiv", "jobparams_full": {k: v for k, v in job.items() if k not in ("single", "only")}, "only": only, "job": job["name"]}


def _equiv(job, ctx):
    import cincoconfig as cc
    fmt, variant = job["fmt"], GROWN.get(job["variant"], job["variant"])
    grown = job["variant"] if job["variant"] in GROWN else None
    tmp = ctx.tmp
    incdir = os.path.join(tmp, "incs")
    os.makedirs(incdir, exist_ok=True)
    startdir = incdir if job["startdir"] == "startdir" else None
    if startdir is None:
        os.chdir(incdir)   # relative include paths resolve against the current directory
    else:
        os.chdir(tmp)
    only = job.get("only")
    combos = list(itertools.product(*[LEAFVALS[k] for k in ("x", "y", "z", "w")]))
    if job.get("tier") == "quick":
        # quick: included side takes every assignment, including side a covering subset (every value of every leaf, pairwise)
        main_combos = [c for i, c in enumerate(combos) if i % 4 == 0 or c.count(None) >= 3]
    else:
        main_combos = combos
    n = 0
    shared = {}
    for mi, m in enumerate(main_combos):
        for ci, c in enumerate(combos):
            if only is not None and only != [mi, ci]:
                continue
            n += 1
            main = _mk(*m)
            files = {}
            if variant == "root":
                main["include"] = "r.inc"
                files["r.inc"] = _mk(*c)
                want = ref_merge(main, files["r.inc"])
            elif variant == "nested":
                main.setdefault("sub", {})["inc"] = "n.inc"
                files["n.inc"] = _mk(*c, nested_only=True)
                want = dict(main); want["sub"] = ref_merge(main["sub"], files["n.inc"])
            elif variant == "both":
                main["include"] = "r.inc"
                main.setdefault("sub", {})["inc"] = "n.inc"
                files["r.inc"] = _mk(c[0], c[1], None, c[3])
                files["n.inc"] = _mk(None, None, c[2], None, nested_only=True)
                want = ref_merge(main, files["r.inc"])
                want["sub"] = ref_merge(want.get("sub", {}), files["n.inc"])
            elif variant == "two-in-scope":
                main["include"] = "r.inc"
                main["include2"] = "r2.inc"
                files["r.inc"] = _mk(c[0], c[1], None, None)
                files["r2.inc"] = _mk(c[1] and 2, None, c[2], c[3])
                want = ref_merge(ref_merge(main, files["r.inc"]), files["r2.inc"])
            elif variant == "two-in-scope-aba":
                # three include fields of one scope naming A, B, A: the last one is A's again and wins over B
                main["include"] = "r.inc"
                main["include2"] = "r2.inc"
                main["include3"] = "r.inc"
                files["r.inc"] = _mk(c[0], c[1], None, c[3])
                files["r2.inc"] = _mk(c[0] and 9, "from-r2", c[2], c[3] and "w-r2")
                want = ref_merge(ref_merge(ref_merge(main, files["r.inc"]), files["r2.inc"]), files["r.inc"])
            elif variant == "two-in-scope-samename":
                main["include"] = "same.inc"
                main["include2"] = "same.inc" if startdir else "alt/same.inc"
                files["same.inc"] = _mk(c[0], c[1], None, None)
                files["alt/same.inc"] = _mk(c[0] and 9, None, c[2], c[3])
                want = ref_merge(ref_merge(main, files["same.inc"]), files["alt/same.inc"])
            elif variant in ("depth2", "depth2-plain-between"):
                # an include two sub-configurations deep (with and without an include field in the scope in between)
                main.setdefault("sub", {}).setdefault("deep", {})["inc2"] = "d.inc"
                main["sub"]["deep"]["v"] = c[2]
                files["d.inc"] = {k: v for k, v in (("v", (c[2] or 0) + 1 if c[0] else None), ("t", c[3])) if v is not None}
                want = copy.deepcopy(main)
                want["sub"]["deep"] = ref_merge(main["sub"]["deep"], files["d.inc"])
                if main["sub"]["deep"]["v"] is None:
                    del main["sub"]["deep"]["v"]
                    want = copy.deepcopy(main)
                    want["sub"]["deep"] = ref_merge(main["sub"]["deep"], files["d.inc"])
            elif variant in ("two-in-scope-override", "two-in-scope-introduce", "two-in-scope-null"):
                # the first included file itself carries a value for the second include key of the same scope
                main["include"] = "r.inc"
                first = _mk(c[0], c[1], None, None)
                if variant == "two-in-scope-override":
                    main["include2"] = "r2.inc"
                    first["include2"] = "other.inc"
                elif variant == "two-in-scope-introduce":
                    first["include2"] = "other.inc"
                else:
                    main["include2"] = "r2.inc"
                    first["include2"] = None
                files["r.inc"] = first
                files["r2.inc"] = _mk(7 if c[0] else None, "from-r2", c[2], None)
                files["other.inc"] = _mk(None, "from-other", None, c[3])
                want = ref_merge(main, first)
                nxt = want.get("include2")
                if nxt is not None:
                    want = ref_merge(want, files[nxt])
            else:  # chain: the root include brings in the nested include directive
                main["include"] = "r.inc"
                inc = _mk(c[0], c[1], None, None)
                inc.setdefault("sub", {})["inc"] = "n.inc"
                files["r.inc"] = inc
                files["n.inc"] = _mk(None, None, c[2], c[3], nested_only=True)
                want = ref_merge(main, files["r.inc"])
                want["sub"] = ref_merge(want.get("sub", {}), files["n.inc"])
            if grown == "flag-off-nested":
                main.setdefault("sub", {})["enabled"] = False
                want["sub"] = dict(want.get("sub", {}), enabled=False)
            # every included file also carries untyped container values (stored by the configuration as parsed)
            for name, t in files.items():
                if name == "d.inc":
                    continue
                if name == "n.inc":
                    t["ul"] = [1, [2]]
                else:
                    t["ul"] = [1, [2]]
                    t["ud"] = {"k": {"n": 1}}
            if variant in ("root", "both", "chain") or variant.startswith("two-in-scope"):
                want["ul"] = [1, [2]]; want["ud"] = {"k": {"n": 1}}
            if variant.startswith("depth2"):
                pass
            if variant in ("nested", "both", "chain"):
                want.setdefault("sub", {})["ul"] = [1, [2]]
            for name, t in files.items():
                os.makedirs(os.path.dirname(os.path.join(incdir, name)), exist_ok=True)
                _write(fmt, os.path.join(incdir, name), t, job.get("opts"))
            mainpath = os.path.join(tmp, "main.cfg")
            maindata = _write(fmt, mainpath, main, job.get("opts"))
            if grown == "env-bound":
                dummy = os.path.join(incdir, "env-named.inc")
                _write(fmt, dummy, {}, job.get("opts"))
                os.environ["C18E_INCLUDE"] = dummy
                os.environ["C18E_SUB_INC"] = dummy
            if shared.get("schema") is None:
                shared["schema"] = _schema(variant, startdir, grown)
            schema = shared["schema"]
            cfg = schema()
            ref = _schema(variant, startdir, grown if grown in ("env-bound", "flag-off-nested") else None)()      # the reference side never touches the include machinery
            fp = "C18|equiv|%s|%s|%s|" % (job["variant"], fmt, job["startdir"])
            case = _case(job, [mi, ci])
            ctx.transitions += 1
            # a section that no document mentions holds a value set by the application: it is not part of the merged tree,
            # so the load leaves it alone - on both sides
            cfg.first.q = 77
            ref.first.q = 77
            main_before = copy.deepcopy(main)
            try:
                if job.get("opts"):
                    cfg.loads(maindata, fmt, **job["opts"])       # options apply to the including and the included documents
                else:
                    cfg.load(mainpath, fmt)
            except Exception as exc:  # noqa
                ctx.case((variant, fmt, mi, ci), "equiv:load-raises", True)
                ctx.violation(fp + "load-raises", "main %s + included %s: load raised %r" % (main, files, exc), case, size=len(str(main)))
                continue
            ref.load_tree(copy.deepcopy(want))
            ctx.case((variant, fmt, mi, ci), "equiv:ok", bool(set(_flat(main)) & set(_flat_files(files))))
            a, b = copy.deepcopy(cc.asdict(cfg)), copy.deepcopy(cc.asdict(ref))
            try:       # what an application does with a loaded configuration must not leak into the next load
                cfg.y = "mutated-after-load"
                cfg.sub.w = "mutated-too"
                if cfg.ul is not None:
                    cfg.ul.append("appended-after-load")
                    cfg.ul[1].append("nested-append")
                if cfg.ud is not None:
                    cfg.ud["k"]["n"] = "edited-after-load"
                    cfg.ud["new"] = 1
                if cfg.sub.ul is not None:
                    cfg.sub.ul.append("appended-after-load")
            except Exception:  # noqa
                pass
            if grown == "shared-field-object":
                # one field object knows one key: under which name the two scopes keep the include path itself is not judged,
                # what the included files contribute is
                def drop(t):
                    return {k: (drop(v) if isinstance(v, dict) else v) for k, v in t.items() if k not in ("include", "inc")}
                a, b = drop(a), drop(b)
            if V.canon(_norm_paths(a, incdir)) != V.canon(_norm_paths(b, incdir)):
                ctx.violation(fp + "differs", "main %s + included %s loaded as %s; the merged tree %s loads as %s" % (main, files, a, want, b), case,
                              size=len(str(main)) + len(str(files)))
    ctx.states += n
    ctx.traces += 1
    ctx.sample({"variant": variant, "format": fmt, "startdir": job["startdir"], "pairs": n})


def _sizes(job, ctx):
    """include files of every encoded length over a full cycle of the low length byte (and the few shortest documents):
    binary formats carry the document length up front, and nothing about an include file's bytes may be normalised"""
    import cincoconfig as cc
    fmt = job["fmt"]
    only = job.get("only")
    incdir = os.path.join(ctx.tmp, "incs")
    os.makedirs(incdir, exist_ok=True)
    os.chdir(ctx.tmp)
    children = [{}, {"x": 1}, {"sub": {"z": 1}}, {"x": 1, "y": "q"}] + [{"y": "p" * k} for k in range(0, 262)] + [{"y": " " * k + "p" + " " * k} for k in (1, 2, 9)]
    seen_sizes = set()
    for nested in (False, True):
        schema = _schema("nested" if nested else "root", incdir)
        for ci, child in enumerate(children):
            if only is not None and only != [nested, ci]:
                continue
            data = _write(fmt, os.path.join(incdir, "inc.cfg"), (child.get("sub", {}) if nested and "sub" in child else ({"w": child["y"]} if nested and "y" in child else ({"z": 1} if nested and child else child))))
            seen_sizes.add(len(data) % 256)
            main = {"sub": {"inc": "inc.cfg", "z": 5}} if nested else {"include": "inc.cfg", "x": 5}
            mainpath = os.path.join(ctx.tmp, "main.cfg")
            _write(fmt, mainpath, main)
            inc_tree = cc.ConfigFormat.get(fmt).loads(None, data)
            want = copy.deepcopy(main)
            if nested:
                want["sub"] = ref_merge(main["sub"], inc_tree)
            else:
                want = ref_merge(main, inc_tree)
            cfg, ref = schema(), schema()
            ctx.transitions += 1
            case = _case(job, [nested, ci]); case["kind"] = "sizes"
            try:
                cfg.load(mainpath, fmt)
            except Exception as exc:  # noqa
                ctx.case(("sizes", fmt, nested, ci), "sizes:load-raises", True)
                ctx.violation("C18|sizes|%s|load-raises" % fmt, "an include file of %d bytes (%s) made the load raise %r" % (len(data), V.show(child, 40), exc), case)
                continue
            ref.load_tree(want)
            ctx.case(("sizes", fmt, nested, ci), "sizes:ok", True)
            if V.canon(_norm_paths(cc.asdict(cfg), incdir)) != V.canon(_norm_paths(cc.asdict(ref), incdir)):
                ctx.violation("C18|sizes|%s|differs" % fmt, "an include file of %d bytes (%s) loads as %s, the merged tree as %s" % (len(data), V.show(child, 40), cc.asdict(cfg), cc.asdict(ref)), case)
    ctx.states += len(children)
    ctx.sample({"sizes": fmt, "distinct_low_length_bytes": len(seen_sizes)})


def _norm_paths(d, incdir):
    out = {}
    for k, v in d.items():
        if isinstance(v, dict):
            out[k] = _norm_paths(v, incdir)
        elif isinstance(v, str) and v.endswith(".inc"):
            out[k] = os.path.basename(v)
        else:
            out[k] = v
    return out


def _flat(t, pre=""):
    out = []
    for k, v in t.items():
        if isinstance(v, dict):
            out += _flat(v, pre + k + ".")
        else:
            out.append(pre + k)
    return out


def _flat_files(files):
    out = []
    for name, t in files.items():
        pre = "sub." if name == "n.inc" else ""
        out += _flat(t, pre)
    return out


def _paths(job, ctx):
    """path forms: relative / absolute / missing / directory / relative outside the start directory"""
    import cincoconfig as cc
    fmt = job["fmt"]
    tmp = ctx.tmp
    incdir = os.path.join(tmp, "incs")
    other = os.path.join(tmp, "elsewhere")
    os.makedirs(incdir, exist_ok=True)
    os.makedirs(other, exist_ok=True)
    os.makedirs(os.path.join(incdir, "adir"), exist_ok=True)
    _write(fmt, os.path.join(incdir, "ok.inc"), {"x": 5})
    _write(fmt, os.path.join(other, "cwd.inc"), {"x": 6})
    from mc import core
    homeinc = os.path.join(core.home_dir(), "c18conf")
    os.makedirs(homeinc, exist_ok=True)
    _write(fmt, os.path.join(homeinc, "home.inc"), {"x": 7})
    # on this platform a backslash is an ordinary character of a file name: `site\\x.inc` is a file in the start directory,
    # not `x.inc` in a directory `site` (which exists too, with other content / without the second file)
    os.makedirs(os.path.join(incdir, "site"), exist_ok=True)
    _write(fmt, os.path.join(incdir, "site\\x.inc"), {"x": 8})
    _write(fmt, os.path.join(incdir, "site", "x.inc"), {"x": 9})
    _write(fmt, os.path.join(incdir, "site", "only-slash.inc"), {"x": 10})
    only = job.get("only")
    forms = [
        ("backslash-in-name", incdir, "site\\x.inc", 8), ("backslash-in-name-absolute", None, os.path.join(incdir, "site\\x.inc"), 8),
        ("backslash-name-missing", incdir, "site\\only-slash.inc", "raise"), ("slash-sibling", incdir, "site/x.inc", 9),
        ("relative-home-startdir", "~/c18conf", "home.inc", 7),
        ("missing-home-startdir", "~/c18conf", "ok.inc", "raise"),
        ("relative-startdir", incdir, "ok.inc", 5), ("absolute", incdir, os.path.join(incdir, "ok.inc"), 5),
        ("absolute-no-startdir", None, os.path.join(incdir, "ok.inc"), 5), ("relative-cwd", None, "cwd.inc", 6),
        ("missing-relative", incdir, "nope.inc", "raise"), ("missing-absolute", incdir, os.path.join(incdir, "nope.inc"), "raise"),
        ("directory", incdir, "adir", "raise"), ("directory-absolute", None, os.path.join(incdir, "adir"), "raise"),
        ("relative-not-in-startdir", incdir, "cwd.inc", "raise"), ("missing-cwd", None, "ok.inc", "raise"),
        ("wrong-type-int", incdir, 5, "raise"), ("wrong-type-list", incdir, ["ok.inc"], "raise"),
        ("empty-path", incdir, "", "raise"), ("empty-path-no-startdir", None, "", "raise"),
        # the include field's own normalisation decides which name is opened: the file merged is the one the field holds afterwards
        ("strip-absolute", None, "  " + os.path.join(incdir, "ok.inc") + " ", 5, {"transform_strip": True}),
        ("strip-absolute-startdir", incdir, " " + os.path.join(incdir, "site", "x.inc") + "  ", 9, {"transform_strip": True}),
        ("strip-trailing-absolute", None, os.path.join(incdir, "ok.inc") + "  ", 5, {"transform_strip": True}),
        ("strip-trailing-chars-absolute", incdir, os.path.join(incdir, "ok.inc") + "@@", 5, {"transform_strip": "@"}),
        ("strip-relative-startdir", incdir, " ok.inc ", 5, {"transform_strip": True}),
        ("strip-chars-absolute", None, "@" + os.path.join(incdir, "ok.inc") + "@", 5, {"transform_strip": "@"}),
        ("validator-redirect-absolute", None, os.path.join(incdir, "ok.inc"), 9, {"validator": "redirect"}),
        ("validator-redirect-relative", incdir, "ok.inc", 9, {"validator": "redirect"}),
    ]
    redirect_to = os.path.join(incdir, "site", "x.inc")
    os.chdir(other)
    for where in ("root", "nested"):
        for form in forms:
            name, sd, path, expect = form[:4]
            fopts = dict(form[4]) if len(form) > 4 else {}
            if fopts.get("validator") == "redirect":
                fopts["validator"] = lambda cfg, value: redirect_to
            if only is not None and only != [where, name]:
                continue
            s = cc.Schema()
            s.x = cc.IntField(default=1)
            s.early.q = cc.IntField()       # a sibling section declared first and absent from the document
            s.sub.x = cc.IntField(default=1)
            kw = dict({"startdir": sd} if sd else {}, **fopts)
            if where == "root":
                s.include = cc.IncludeField(**kw)
                main = {"x": 2, "include": path}
            else:
                s.sub.include = cc.IncludeField(**kw)
                main = {"sub": {"x": 2, "include": path}}
            if fmt == "xml" and not isinstance(path, str):
                ctx.skipped += 1
                continue
            mp = os.path.join(tmp, "pmain.cfg")
            _write(fmt, mp, main)
            cfg = s()
            ctx.transitions += 1
            try:
                cfg.load(mp, fmt)
                got = cfg.x if where == "root" else cfg.sub.x
            except Exception as exc:  # noqa
                got = exc
            case = {"kind": "paths", "jobparams_full": {k: v for k, v in job.items() if k not in ("single", "only")}, "only": [where, name], "job": job["name"]}
            ctx.case((fmt, where, name), "paths:%s:%s" % (name, "raises" if isinstance(got, Exception) else "ok"), True)
            if expect == "raise":
                if not isinstance(got, Exception):
                    ctx.violation("C18|paths|%s|%s|accepted" % (where, name), "include path %r (%s) did not make the load fail; x=%r" % (path, name, got), case)
            elif isinstance(got, Exception):
                ctx.violation("C18|paths|%s|%s|rejected" % (where, name), "include path %r (%s) should load, raised %r" % (path, name, got), case)
            elif got != expect:
                ctx.violation("C18|paths|%s|%s|wrong-file" % (where, name), "include path %r (%s): x=%r, expected %r" % (path, name, got, expect), case)
    ctx.states += len(forms) * 2
    ctx.traces += 1
