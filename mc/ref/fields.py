"""
Reference models of the built-in field classes, written from the class documentation, *not* by
calling the library.  A field is described by a JSON-able spec

    {"k": "Str", "o": {"min_len": 1, "transform_strip": True, ...}}
    {"k": "List", "item": <spec or None>, "o": {...}}      {"k": "Dict", "key": <spec>, "val": <spec>, "o": {...}}

`mk_field(spec)` builds the real field; `ref_validate(spec, value, env)` is the oracle:
returns ("ok", normal_form) or ("rej", reason).  Python built-ins the documentation names as *the*
conversion (int(), float(), str.strip, re.match with the user's pattern, base64/hex) are used; gates,
bounds, step order, canonical forms and address / host / URL syntax are hand-written.
"""
import base64
import hashlib
import os
import re

from mc import values as V

DNS_TABLE = {"known.example": "10.1.2.3", "other.example": "10.9.9.9"}


class DigestOf:
    """Reference normal form of a challenge value: 'some salted digest of this plaintext'."""

    def __init__(self, plaintext, alg):
        self.plaintext = plaintext if isinstance(plaintext, bytes) else plaintext.encode()
        self.alg = alg

    def __repr__(self):
        return "DigestOf(%r,%s)" % (self.plaintext, self.alg)


class Same:
    """Reference normal form 'the very value that was passed in' (e.g. an existing DigestValue)."""

    def __init__(self, v):
        self.v = v


def _v_sum_lt_10(cfg, value):
    if sum(value) >= 10:
        raise ValueError("sum must be below 10")
    return value


def _v_even(cfg, value):
    if value % 2:
        raise ValueError("must be even")
    return value


def _v_no_dup_values(cfg, value):
    if len(set(value.values())) != len(value):
        raise ValueError("values must be distinct")
    return value


# name -> (field validator handed to the library, reference predicate "value is acceptable")
def _v_identity(cfg, value):
    return value


CUSTOM_VALIDATORS = {
    "identity": (_v_identity, lambda v: True),
    "sum<10": (_v_sum_lt_10, lambda v: sum(v) < 10),
    "even": (_v_even, lambda v: v % 2 == 0),
    "distinct-values": (_v_no_dup_values, lambda v: len(set(v.values())) == len(v)),
}


# ---------------------------------------------------------------------------------------------
# building the real field
# ---------------------------------------------------------------------------------------------
FILEWORLD = "@FW"


def fileworld():
    """A private directory with known contents (a file `taken.log`, a directory `adir`), distinct from the working
    directory, that file-name field specs name symbolically as "@FW"."""
    from mc import core
    fw = os.path.join(core.home_dir(), "fw")
    if not os.path.isdir(os.path.join(fw, "adir")):
        os.makedirs(os.path.join(fw, "adir"), exist_ok=True)
        with open(os.path.join(fw, "taken.log"), "w") as fp:
            fp.write("x")
    return fw


def _resolve_opts(o):
    if o.get("startdir") == FILEWORLD:
        o = dict(o)
        o["startdir"] = fileworld()
    elif o.get("startdir") == FILEWORLD + "~":
        o = dict(o)
        fileworld()
        o["startdir"] = "~/fw"          # the file world lives directly under the (private) home directory
    return o


def mk_field(spec, schemas=None):
    import cincoconfig as cc
    k = spec["k"]
    o = dict(_resolve_opts(spec.get("o", {})))
    vname = o.pop("validator", None)
    if vname:
        o["validator"] = CUSTOM_VALIDATORS[vname][0]
    if "default" in o:
        o["default"] = V.dec(o["default"])
    if o.pop("default_callable", False):
        dv = spec["o"]["default"]
        o["default"] = lambda dv=dv: V.dec(dv)
    simple = {
        "Str": cc.StringField, "Int": cc.IntField, "Float": cc.FloatField, "Port": cc.PortField,
        "Bool": cc.BoolField, "IPv4": cc.IPv4AddressField, "Net": cc.IPv4NetworkField,
        "Host": cc.HostnameField, "Url": cc.UrlField, "Bytes": cc.BytesField, "File": cc.FilenameField,
        "Secure": cc.SecureField, "LogLevel": cc.LogLevelField, "AppMode": cc.ApplicationModeField,
        "Any": cc.AnyField, "Flag": cc.FeatureFlagField,
    }
    if k in simple:
        return simple[k](**o)
    if k == "Challenge":
        alg = o.pop("hash_algorithm", "sha256")
        return cc.ChallengeField(alg, **o)
    if k == "List":
        item = spec.get("item")
        if isinstance(item, dict) and item.get("k") in ("Schema", "CType"):
            return cc.ListField(schemas[item["name"]], **o)
        return cc.ListField(mk_field(item) if item else None, **o)
    if k == "Dict":
        kf, vf = spec.get("key"), spec.get("val")
        return cc.DictField(key_field=mk_field(kf) if kf else None, value_field=mk_field(vf) if vf else None, **o)
    raise ValueError("unknown field kind %r" % k)


# ---------------------------------------------------------------------------------------------
# hand-written syntax predicates
# ---------------------------------------------------------------------------------------------
def parse_ipv4(s):
    """Canonical dotted quad -> 32-bit int, else None (no leading zeros, ASCII digits only)."""
    parts = s.split(".")
    if len(parts) != 4:
        return None
    n = 0
    for p in parts:
        if not (1 <= len(p) <= 3) or any(c not in "0123456789" for c in p):
            return None
        if len(p) > 1 and p[0] == "0":
            return None
        v = int(p)
        if v > 255:
            return None
        n = (n << 8) | v
    return n


def fmt_ipv4(n):
    return ".".join(str((n >> s) & 255) for s in (24, 16, 8, 0))


def parse_cidr(s):
    """'A.B.C.D' or 'A.B.C.D/Z' with an integer prefix -> (addr, prefix) else None; host bits must be 0."""
    if s.count("/") > 1:
        return None
    addr_s, sep, pfx_s = s.partition("/")
    addr = parse_ipv4(addr_s)
    if addr is None:
        return None
    if not sep:
        return (addr, 32)
    if not pfx_s or any(c not in "0123456789" for c in pfx_s):
        return None
    pfx = int(pfx_s)
    if pfx > 32:
        return None
    hostmask = (1 << (32 - pfx)) - 1
    if addr & hostmask:
        return None
    return (addr, pfx)


def has_url_scheme(s):
    """RFC 3986 scheme: ALPHA *(ALPHA / DIGIT / '+' / '-' / '.') ':'"""
    i = s.find(":")
    if i <= 0:
        return False
    head = s[:i]
    if not (head[0].isascii() and head[0].isalpha()):
        return False
    return all((c.isascii() and c.isalnum()) or c in "+-." for c in head)


def _wordchar(c):
    return c.isalnum() or c == "_"


def looks_like_hostname(s):
    if "\n" in s:
        return None  # the '$'-before-newline quirk is outside the reference (not asserted)
    dns = len(s) >= 2 and (s[0].isascii() and s[0].isalnum()) and all((c.isascii() and c.isalnum()) or c in ".-" for c in s[1:])
    netbios = 1 <= len(s) <= 15 and all(_wordchar(c) or c in "!@#$%^()-'{}.~" for c in s)
    return dns or netbios


# ---------------------------------------------------------------------------------------------
# the reference validator
# ---------------------------------------------------------------------------------------------
class Rej(Exception):
    pass


def _string_rules(o, v, defaults=None):
    d = dict(defaults or {})
    d.update(o)
    if type(v) is not str and not isinstance(v, str):
        raise Rej("not a string")
    # normal form: the fixed point of (strip, case) -- stripped and case-folded at the same time
    strip = d.get("transform_strip")
    case = d.get("transform_case")
    while True:
        w = v
        if strip:
            w = w.strip(strip) if isinstance(strip, str) else w.strip()
        if case:
            w = w.lower() if case.lower() == "lower" else w.upper()
        if w == v:
            break
        v = w
    if d.get("required") and not v:
        raise Rej("required, empty")
    if d.get("min_len") is not None and len(v) < d["min_len"]:
        raise Rej("too short")
    if d.get("max_len") is not None and len(v) > d["max_len"]:
        raise Rej("too long")
    if d.get("regex") and not re.match(d["regex"], v):
        raise Rej("pattern")
    if d.get("choices") and v not in d["choices"]:
        raise Rej("choice")
    return v


def _number(o, v, cls, dmin=None, dmax=None):
    if isinstance(v, bool) or not isinstance(v, (str, int, float)):
        raise Rej("type")
    try:
        num = cls(v)
    except Exception:
        raise Rej("conversion")
    lo = o.get("min", dmin)
    hi = o.get("max", dmax)
    if lo is not None and not (num >= lo):
        raise Rej("below min")
    if hi is not None and not (num <= hi):
        raise Rej("above max")
    return num


TRUE_TOKENS = ("t", "true", "1", "on", "yes", "y")
FALSE_TOKENS = ("f", "false", "0", "off", "no", "n")


def ref_validate(spec, v, env=None):
    """-> ("ok", normal form) | ("rej", reason) | ("undef", why)  (undef: outside the reference)"""
    try:
        norm = _validate(spec, v, env or {})
        vname = spec.get("o", {}).get("validator")
        if vname and norm is not None and not CUSTOM_VALIDATORS[vname][1](norm):
            raise Rej("custom validator")
        return ("ok", norm)
    except Rej as r:
        return ("rej", str(r))
    except _Undef as u:
        return ("undef", str(u))


class _Undef(Exception):
    pass


def _validate(spec, v, env):
    k = spec["k"]
    o = _resolve_opts(spec.get("o", {}))
    if v is None:
        if o.get("required"):
            raise Rej("required")
        return None
    if k == "Any":
        return v
    if k == "Str":
        return _string_rules(o, v)
    if k == "LogLevel":
        d = {"transform_case": "lower", "transform_strip": True}
        oo = dict(o)
        oo["choices"] = oo.pop("levels", None) or ["debug", "info", "warning", "error", "critical"]
        return _string_rules(oo, v, d)
    if k == "AppMode":
        d = {"transform_case": "lower", "transform_strip": True}
        oo = dict(o)
        oo.pop("create_helpers", None)
        oo["choices"] = oo.pop("modes", None) or ["development", "production"]
        return _string_rules(oo, v, d)
    if k == "Int":
        return _number(o, v, int)
    if k == "Float":
        return _number(o, v, float)
    if k == "Port":
        return _number(o, v, int, 1, 65535)
    if k in ("Bool", "Flag"):
        if isinstance(v, bool):
            return v
        if isinstance(v, (int, float)):
            return v != 0
        if isinstance(v, str):
            t = v.lower()
            if t in TRUE_TOKENS:
                return True
            if t in FALSE_TOKENS:
                return False
        raise Rej("not a boolean")
    if k == "IPv4":
        s = _string_rules(o, v)
        a = parse_ipv4(s)
        if a is None:
            raise Rej("not an IPv4 address")
        return fmt_ipv4(a)
    if k == "Net":
        oo = {x: y for x, y in o.items() if x not in ("min_prefix_len", "max_prefix_len")}
        s = _string_rules(oo, v)
        net = parse_cidr(s)
        if net is None:
            raise Rej("not a CIDR network")
        lo, hi = o.get("min_prefix_len"), o.get("max_prefix_len")
        if lo is not None and net[1] < lo:
            raise Rej("prefix below minimum")
        if hi is not None and net[1] > hi:
            raise Rej("prefix above maximum")
        return "%s/%d" % (fmt_ipv4(net[0]), net[1])
    if k == "Host":
        oo = {x: y for x, y in o.items() if x not in ("allow_ipv4", "resolve")}
        s = _string_rules(oo, v)
        a = parse_ipv4(s)
        if a is not None:
            if o.get("allow_ipv4", True):
                return fmt_ipv4(a)
            raise Rej("address not allowed")
        if o.get("resolve"):
            if s in DNS_TABLE:
                return DNS_TABLE[s]
            raise Rej("does not resolve")
        ok = looks_like_hostname(s)
        if ok is None:
            raise _Undef("newline in host name")
        if not ok:
            raise Rej("not a host name")
        return s
    if k == "Url":
        s = _string_rules(o, v)
        if not has_url_scheme(s):
            raise Rej("no scheme")
        return s
    if k == "Bytes":
        if isinstance(v, str):
            try:
                return v.encode()
            except UnicodeError:
                raise Rej("not encodable")
        if isinstance(v, bytes):
            return v
        raise Rej("not bytes")
    if k == "File":
        oo = {x: y for x, y in o.items() if x not in ("exists", "startdir")}
        s = _string_rules(oo, v)
        if not s:
            return s
        startdir = o.get("startdir")
        if not os.path.isabs(s) and startdir:
            s = os.path.abspath(os.path.expanduser(os.path.join(startdir, s)))
        ex = o.get("exists")
        there = os.path.exists(s)
        if ex is True and not there:
            raise Rej("missing")
        if ex is False and there:
            raise Rej("exists")
        if ex == "dir" and not os.path.isdir(s):
            raise Rej("not a directory")
        if ex == "file" and not os.path.isfile(s):
            raise Rej("not a file")
        return s
    if k == "Challenge":
        if isinstance(v, (str, bytes)):
            if isinstance(v, str):
                try:
                    v.encode()
                except UnicodeError:
                    raise Rej("not encodable")
            return DigestOf(v, o.get("hash_algorithm", "sha256").lower())
        if type(v).__name__ == "DigestValue":
            return Same(v)
        raise Rej("not a secret")
    if k == "Secure":
        if isinstance(v, str):
            return v
        raise Rej("not a string")
    if k == "List":
        if not isinstance(v, (list, tuple)):
            raise Rej("not a list")
        if o.get("required") and not v:
            raise Rej("required, empty")
        item = spec.get("item")
        if item is None or item.get("k") == "Any":
            return list(v)  # untyped: stored as a list, items as given
        if item.get("k") in ("Schema", "CType"):
            raise _Undef("configuration items are checked by the config-level drivers")
        return [_validate(item, x, env) for x in v]
    if k == "Dict":
        if not isinstance(v, dict):
            raise Rej("not a dict")
        if o.get("required") and not v:
            raise Rej("required, empty")
        kf, vf = spec.get("key"), spec.get("val")
        if not kf and not vf:
            return v
        out = {}
        for kk, vv in v.items():
            nk = _validate(kf, kk, env) if kf else kk
            nv = _validate(vf, vv, env) if vf else vv
            out[nk] = nv
        return out
    raise ValueError("no reference for %r" % k)


# ---------------------------------------------------------------------------------------------
# comparing a library value with a reference normal form
# ---------------------------------------------------------------------------------------------
ALGS = {"md5": hashlib.md5, "sha1": hashlib.sha1, "sha224": hashlib.sha224, "sha256": hashlib.sha256,
        "sha384": hashlib.sha384, "sha512": hashlib.sha512}


def matches(lib, ref):
    """Does the library's stored value equal the reference normal form? (type-exact, content only)"""
    if isinstance(ref, DigestOf):
        if type(lib).__name__ != "DigestValue":
            return False
        h = ALGS[ref.alg]
        return (len(lib.salt) == h().digest_size and lib.digest == h(lib.salt + ref.plaintext).digest())
    if isinstance(ref, Same):
        return lib is ref.v or V.canon(lib) == V.canon(ref.v)
    if isinstance(ref, list) and isinstance(lib, list):
        return len(lib) == len(ref) and all(matches(a, b) for a, b in zip(lib, ref))
    if isinstance(ref, tuple) and isinstance(lib, tuple):
        return len(lib) == len(ref) and all(matches(a, b) for a, b in zip(lib, ref))
    if isinstance(ref, dict) and isinstance(lib, dict):
        if len(lib) != len(ref):
            return False
        rk = {repr(V.canon(k)): v for k, v in ref.items()}
        for k, v in lib.items():
            kk = repr(V.canon(k))
            if kk not in rk or not matches(v, rk[kk]):
                return False
        return True
    return V.plain(lib) == V.plain(ref)


def same_value(a, b):
    """Equality of two library values (type-exact content; digests by salt/digest/algorithm)."""
    return V.plain(a) == V.plain(b)


def is_plain_data(t):
    """str / int / float / bool / None / list / str-keyed dict, nothing else (exact types)."""
    if t is None or type(t) in (str, int, float, bool):
        return True
    if type(t) is list:
        return all(is_plain_data(x) for x in t)
    if type(t) is dict:
        return all(type(k) is str and is_plain_data(x) for k, x in t.items())
    return False
