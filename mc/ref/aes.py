"""Independent pure-Python AES (FIPS-197) with CBC and PKCS#7; self-tested on the FIPS-197 C.3 and
SP 800-38A F.2.5/F.2.6 vectors. Reference model only - slow and not constant-time."""


def _xtime(a):
    a <<= 1
    return (a ^ 0x11B) & 0xFF if a & 0x100 else a


def _mul(a, b):
    r = 0
    while b:
        if b & 1:
            r ^= a
        a = _xtime(a)
        b >>= 1
    return r


def _build_sbox():
    # multiplicative inverse in GF(2^8) followed by the affine map
    inv = [0] * 256
    for a in range(1, 256):
        for b in range(1, 256):
            if _mul(a, b) == 1:
                inv[a] = b
                break
    sbox = [0] * 256
    for a in range(256):
        x = inv[a]
        y = x
        for _ in range(4):
            x = ((x << 1) | (x >> 7)) & 0xFF
            y ^= x
        sbox[a] = y ^ 0x63
    return sbox


SBOX = _build_sbox()
INV_SBOX = [0] * 256
for _i, _v in enumerate(SBOX):
    INV_SBOX[_v] = _i
MUL = {c: [_mul(x, c) for x in range(256)] for c in (2, 3, 9, 11, 13, 14)}


def expand_key(key):
    nk = len(key) // 4
    assert nk in (4, 6, 8)
    nr = nk + 6
    w = [list(key[4 * i:4 * i + 4]) for i in range(nk)]
    rcon = 1
    for i in range(nk, 4 * (nr + 1)):
        t = list(w[i - 1])
        if i % nk == 0:
            t = t[1:] + t[:1]
            t = [SBOX[b] for b in t]
            t[0] ^= rcon
            rcon = _xtime(rcon)
        elif nk > 6 and i % nk == 4:
            t = [SBOX[b] for b in t]
        w.append([a ^ b for a, b in zip(w[i - nk], t)])
    return [sum((w[4 * r + c] for c in range(4)), []) for r in range(nr + 1)], nr


def _add(s, k):
    return [a ^ b for a, b in zip(s, k)]


def _shift(s):
    # state is column-major: s[4*c + r]
    return [s[4 * ((c + r) % 4) + r] for c in range(4) for r in range(4)]


def _inv_shift(s):
    return [s[4 * ((c - r) % 4) + r] for c in range(4) for r in range(4)]


def _mix(s):
    out = []
    for c in range(4):
        a = s[4 * c:4 * c + 4]
        out += [MUL[2][a[0]] ^ MUL[3][a[1]] ^ a[2] ^ a[3],
                a[0] ^ MUL[2][a[1]] ^ MUL[3][a[2]] ^ a[3],
                a[0] ^ a[1] ^ MUL[2][a[2]] ^ MUL[3][a[3]],
                MUL[3][a[0]] ^ a[1] ^ a[2] ^ MUL[2][a[3]]]
    return out


def _inv_mix(s):
    out = []
    for c in range(4):
        a = s[4 * c:4 * c + 4]
        out += [MUL[14][a[0]] ^ MUL[11][a[1]] ^ MUL[13][a[2]] ^ MUL[9][a[3]],
                MUL[9][a[0]] ^ MUL[14][a[1]] ^ MUL[11][a[2]] ^ MUL[13][a[3]],
                MUL[13][a[0]] ^ MUL[9][a[1]] ^ MUL[14][a[2]] ^ MUL[11][a[3]],
                MUL[11][a[0]] ^ MUL[13][a[1]] ^ MUL[9][a[2]] ^ MUL[14][a[3]]]
    return out


def encrypt_block(rk, nr, block):
    s = _add(list(block), rk[0])
    for r in range(1, nr):
        s = _add(_mix(_shift([SBOX[b] for b in s])), rk[r])
    return bytes(_add(_shift([SBOX[b] for b in s]), rk[nr]))


def decrypt_block(rk, nr, block):
    s = _add(list(block), rk[nr])
    for r in range(nr - 1, 0, -1):
        s = _inv_mix(_add([INV_SBOX[b] for b in _inv_shift(s)], rk[r]))
    return bytes(_add([INV_SBOX[b] for b in _inv_shift(s)], rk[0]))


_KS = {}


def _ks(key):
    if key not in _KS:
        _KS[key] = expand_key(key)
    return _KS[key]


def pkcs7_pad(data, bs=16):
    n = bs - len(data) % bs
    return data + bytes([n]) * n


def pkcs7_unpad(data, bs=16):
    if not data or len(data) % bs:
        raise ValueError("bad length")
    n = data[-1]
    if n < 1 or n > bs or data[-n:] != bytes([n]) * n:
        raise ValueError("bad padding")
    return data[:-n]


def cbc_encrypt(key, iv, plaintext):
    rk, nr = _ks(bytes(key))
    data = pkcs7_pad(plaintext)
    out, prev = b"", iv
    for i in range(0, len(data), 16):
        prev = encrypt_block(rk, nr, bytes(a ^ b for a, b in zip(data[i:i + 16], prev)))
        out += prev
    return out


def cbc_decrypt(key, iv, ciphertext):
    if not ciphertext or len(ciphertext) % 16:
        raise ValueError("ciphertext not block aligned")
    rk, nr = _ks(bytes(key))
    out, prev = b"", iv
    for i in range(0, len(ciphertext), 16):
        blk = ciphertext[i:i + 16]
        out += bytes(a ^ b for a, b in zip(decrypt_block(rk, nr, blk), prev))
        prev = blk
    return pkcs7_unpad(out)


def selftest():
    h = bytes.fromhex
    key = h("000102030405060708090a0b0c0d0e0f101112131415161718191a1b1c1d1e1f")
    rk, nr = expand_key(key)
    ct = encrypt_block(rk, nr, h("00112233445566778899aabbccddeeff"))
    assert ct == h("8ea2b7ca516745bfeafc49904b496089"), "FIPS-197 C.3 encrypt"
    assert decrypt_block(rk, nr, ct) == h("00112233445566778899aabbccddeeff"), "FIPS-197 C.3 decrypt"
    k128 = h("000102030405060708090a0b0c0d0e0f")
    rk, nr = expand_key(k128)
    assert encrypt_block(rk, nr, h("00112233445566778899aabbccddeeff")) == h("69c4e0d86a7b0430d8cdb78070b4c55a"), "FIPS-197 C.1"
    # SP 800-38A F.2.5 CBC-AES256.Encrypt (first two blocks)
    key = h("603deb1015ca71be2b73aef0857d77811f352c073b6108d72d9810a30914dff4")
    iv = h("000102030405060708090a0b0c0d0e0f")
    pt = h("6bc1bee22e409f96e93d7e117393172aae2d8a571e03ac9c9eb76fac45af8e51")
    want = h("f58c4c04d6e5f1ba779eabfb5f7bfbd69cfc4e967edb808d679f777bc6702c7d")
    got = cbc_encrypt(key, iv, pt)
    assert got[:32] == want, "SP 800-38A F.2.5"
    assert cbc_decrypt(key, iv, got) == pt, "SP 800-38A F.2.6"
    return True


if __name__ == "__main__":
    print(selftest())
