"""
Core of the bounded-exhaustive explorer: bootstrap (binding to the tree under test, seams),
job runner (16 forked workers), violation bookkeeping (fingerprints, known findings, replay
files), evidence writer.

Nothing in here samples: jobs are complete enumerations; VERIF_SEED only keys the entropy seam.
"""
import atexit
import collections
import hashlib
import json
import multiprocessing
import os
import re
import shutil
import sys
import tempfile
import time
import traceback

VERIF = os.path.dirname(os.path.dirname(os.path.abspath(__file__)))
REPO = os.path.abspath(os.environ.get("VERIF_REPO", "/repo"))
SEED = int(os.environ.get("VERIF_SEED", "0") or 0)

SCRATCH_ROOT = None  # run-private scratch root
_BOOTED = False
MAX_REPORT = int(os.environ.get("VERIF_MAX_REPORT", "25"))


class HarnessError(Exception):
    """The harness itself is wrong (never a property violation)."""


# --------------------------------------------------------------------------------------------
# entropy seam
# --------------------------------------------------------------------------------------------
class Entropy:
    """Deterministic replacement for os.urandom: SHA-256 counter stream keyed by seed and job."""

    def __init__(self):
        self.key = b"0"
        self.ctr = 0
        self.calls = 0
        self.log = []  # every byte string handed out since last reseed (for freshness oracles)

    def reseed(self, key):
        self.key = ("%s|%s" % (SEED, key)).encode()
        self.ctr = 0
        self.calls = 0
        self.log = []

    def mark(self):
        return (self.ctr, self.calls, len(self.log))

    def rewind(self, mark):
        self.ctr, self.calls, n = mark
        del self.log[n:]

    def urandom(self, n):
        out = b""
        while len(out) < n:
            out += hashlib.sha256(self.key + b"#" + str(self.ctr).encode()).digest()
            self.ctr += 1
        out = out[:n]
        self.calls += 1
        self.log.append(out)
        return out


ENTROPY = Entropy()


class _OsProxy:
    """Stands in for the `os` module inside library modules that draw entropy."""

    def __init__(self, real):
        object.__setattr__(self, "_real", real)

    def __getattr__(self, name):
        return getattr(object.__getattribute__(self, "_real"), name)

    def urandom(self, n):
        return ENTROPY.urandom(n)


class _SocketProxy:
    """DNS seam: gethostbyname answers from a fixed table, everything else fails to resolve."""

    def __init__(self, real):
        self._real = real

    def __getattr__(self, name):
        return getattr(self._real, name)

    def gethostbyname(self, name):
        from mc.ref.fields import DNS_TABLE
        if name in DNS_TABLE:
            return DNS_TABLE[name]
        raise self._real.gaierror(-2, "Name or service not known")


def bootstrap():
    """Bind to the tree under test and install the seams. Must run before cincoconfig import."""
    global SCRATCH_ROOT, _BOOTED
    if _BOOTED:
        return
    base = "/dev/shm" if os.path.isdir("/dev/shm") and os.access("/dev/shm", os.W_OK) else None
    SCRATCH_ROOT = tempfile.mkdtemp(prefix="ccverif-%d-" % os.getpid(), dir=base)
    atexit.register(_cleanup, os.getpid(), SCRATCH_ROOT)
    home = os.path.join(SCRATCH_ROOT, "home")
    os.makedirs(home)
    os.environ["HOME"] = home
    for k in list(os.environ):
        if "CCV7" in k:
            del os.environ[k]
    if "cincoconfig" in sys.modules:
        raise HarnessError("cincoconfig imported before bootstrap")
    sys.path.insert(0, REPO)
    sys.dont_write_bytecode = True
    import cincoconfig  # noqa
    src = os.path.abspath(cincoconfig.__file__)
    if not src.startswith(REPO + os.sep):
        raise HarnessError("cincoconfig imported from %s, not from %s" % (src, REPO))
    import cincoconfig.encryption as enc
    import cincoconfig.fields.secure_field as sf
    enc.os = _OsProxy(os)
    sf.os = _OsProxy(os)
    import cincoconfig.fields.net_field as nf
    nf.socket = _SocketProxy(nf.socket)
    assert cincoconfig.Config.DEFAULT_CINCOKEY_FILEPATH == os.path.join(home, ".cincokey")
    _BOOTED = True


def _cleanup(pid, path):
    if os.getpid() == pid:
        shutil.rmtree(path, ignore_errors=True)


def home_dir():
    """Per-process HOME (workers are forked, so each gets its own; the library's frozen default
    key-file path is re-pointed to match, keeping `~/.cincokey` semantics)."""
    if os.environ.get("VERIF_FIXED_HOME"):       # a child session that must share its parent's home
        return os.environ["VERIF_FIXED_HOME"]
    home = os.path.join(worker_dir(), "home")
    if os.environ.get("HOME") != home or not os.path.isdir(home):
        os.makedirs(home, exist_ok=True)
        os.environ["HOME"] = home
        import cincoconfig
        cincoconfig.Config.DEFAULT_CINCOKEY_FILEPATH = os.path.join(home, ".cincokey")
    return home


def default_keyfile():
    return os.path.join(home_dir(), ".cincokey")


# --------------------------------------------------------------------------------------------
# per-job accumulator
# --------------------------------------------------------------------------------------------
def short_hash(obj):
    return hashlib.blake2b(repr(obj).encode("utf-8", "backslashreplace"), digest_size=8).digest()


class Ctx:
    """What one job (one complete enumeration of a sub-space) measured."""

    MAX_VIOL = 40

    def __init__(self, prop, job):
        self.prop = prop
        self.job = job
        self.evaluations = 0
        self.states = 0
        self.transitions = 0
        self.traces = 0
        self.outcomes = collections.Counter()
        self.nontrivial = set()
        self.samples = []
        self.violations = {}
        self.skipped = 0
        self.caps = []
        self.closed = None
        self.depth = 0
        self.extra = collections.Counter()
        self.tmp = None

    # -- bookkeeping ---------------------------------------------------------------------
    def case(self, key, outcome, nontrivial=True):
        """Record one evaluated case; `key` identifies it within the job."""
        self.evaluations += 1
        self.outcomes[outcome] += 1
        if nontrivial:
            self.nontrivial.add(short_hash(key))

    def sample(self, obj, limit=3):
        if len(self.samples) < limit:
            self.samples.append(obj)

    def violation(self, fp, msg, case, size=None):
        """fp: narrow fingerprint; case: JSON-able replay description understood by the
        property module's replay()."""
        size = size if size is not None else len(json.dumps(case, default=repr))
        old = self.violations.get(fp)
        if old is None and len(self.violations) >= self.MAX_VIOL:
            self.extra["violations_dropped_over_cap"] += 1
            return
        if old is None or size < old["size"]:
            self.violations[fp] = {"fp": fp, "msg": msg, "case": case, "size": size, "origin": self.job.get("name", "")}

    def result(self):
        return {
            "job": self.job.get("name", ""),
            "evaluations": self.evaluations,
            "states": self.states,
            "transitions": self.transitions,
            "traces": self.traces,
            "outcomes": dict(self.outcomes),
            "nontrivial": len(self.nontrivial),
            "samples": self.samples,
            "violations": list(self.violations.values()),
            "skipped": self.skipped,
            "caps": self.caps,
            "closed": self.closed,
            "depth": self.depth,
            "extra": dict(self.extra),
        }


_WORKER_DIR = None


def worker_dir():
    global _WORKER_DIR
    if _WORKER_DIR is None or not os.path.isdir(_WORKER_DIR):
        _WORKER_DIR = tempfile.mkdtemp(prefix="w%d-" % os.getpid(), dir=SCRATCH_ROOT)
    return _WORKER_DIR


def fresh_dir(name="job"):
    """Empty scratch directory for one job / world (inside the worker's private directory)."""
    path = os.path.join(worker_dir(), name)
    shutil.rmtree(path, ignore_errors=True)
    os.makedirs(path)
    return path


def _run_one(args):
    modname, job = args
    mod = sys.modules[modname]
    ctx = Ctx(mod.PROP, job)
    ENTROPY.reseed(job.get("name", ""))
    home_dir()
    ctx.tmp = fresh_dir("job")
    cwd = os.getcwd()
    try:
        os.chdir(ctx.tmp)
        mod.run_job(job, ctx)
        res = ctx.result()
    except SystemExit as exc:
        # something below the job asked the interpreter to exit (an argument parser rejecting a command line the job
        # treats as plain set-up): on code where the property holds that never happens; a silent worker exit would hang the pool
        ctx.violation("%s|uncaught-process-exit" % mod.PROP, "job %s: a set-up step ended in SystemExit(%r)" % (job.get("name"), exc.code),
                      {"whole_job": {k: v for k, v in job.items() if k != "single"}, "job": job.get("name")})
        res = ctx.result()
    except Exception as exc:  # noqa
        tb = traceback.extract_tb(exc.__traceback__)
        lib = os.path.join(REPO, "cincoconfig") + os.sep
        if tb and tb[-1].filename.startswith(lib):
            # the library raised in a step the job treats as plain set-up (it never does on code where the property
            # holds): report it against the property instead of dying, replayable as the whole job
            ctx.violation("%s|uncaught-library-exception|%s|%s" % (mod.PROP, type(exc).__name__, os.path.basename(tb[-1].filename)),
                          "job %s: a set-up step raised inside the library: %r (at %s:%d)" % (job.get("name"), exc, tb[-1].filename[len(lib):], tb[-1].lineno),
                          {"whole_job": {k: v for k, v in job.items() if k != "single"}, "job": job.get("name")})
            res = ctx.result()
        else:       # harness bug: never silently dropped
            res = ctx.result()
            res["harness_error"] = "job %s: %s" % (job.get("name"), traceback.format_exc())
    finally:
        os.chdir(cwd)
        shutil.rmtree(ctx.tmp, ignore_errors=True)
        _clean_env()
        dk = default_keyfile()
        if os.path.exists(dk):
            os.unlink(dk)
    return res


def _clean_env():
    for k in list(os.environ):
        if "CCV7" in k:
            del os.environ[k]


def _isolated(args):
    """run one job in a freshly forked child process (pristine library state)"""
    ctxm = multiprocessing.get_context("fork")
    with ctxm.Pool(1, maxtasksperchild=1) as pool:
        return pool.apply(_run_one, (args,))


def run_case(mod, case):
    """Re-execute one replay case in this process; returns the list of violations (dicts)."""
    if "whole_job" in case:
        return _isolated((mod.__name__, case["whole_job"]))
    job = {"name": case.get("job", "replay"), "single": case}
    job.update(case.get("jobparams", {}))
    return _isolated((mod.__name__, job))


# --------------------------------------------------------------------------------------------
# known findings
# --------------------------------------------------------------------------------------------
def load_known():
    known = {}
    path = os.path.join(VERIF, "known_findings.txt")
    if not os.path.exists(path):
        return known
    for line in open(path, encoding="utf-8"):
        line = line.strip()
        if not line.startswith("known:"):
            continue
        parts = line[len("known:"):].split(None, 2)
        prop = parts[0].split("=", 1)[1]
        if parts[1].startswith("fp~="):
            known.setdefault("re", []).append((prop, re.compile(parts[1][4:]), parts[2] if len(parts) > 2 else ""))
        else:
            known[(prop, parts[1].split("=", 1)[1])] = parts[2] if len(parts) > 2 else ""
    return known


def match_known(known, prop, fp):
    if (prop, fp) in known:
        return known[(prop, fp)] or fp
    for p, rx, what in known.get("re", []):
        if p == prop and rx.fullmatch(fp):
            return what or rx.pattern
    return None


# --------------------------------------------------------------------------------------------
# property runner
# --------------------------------------------------------------------------------------------
_MANY_VALUED = ("dict-typed", "list-int", "str-tricky", "list-str-req", "list-list", "dict-of-lists", "list-of-lists", "challenge-dflt")


def _weight(job):
    if "weight" in job:
        return job["weight"]
    w = 1
    shape, leaf = str(job.get("shape", "")), str(job.get("leaf", ""))
    if shape.startswith("nested"):
        w *= 4
    if shape.startswith("reuse") or shape.startswith("cfglist"):
        w *= 2
    if any(leaf.startswith(x) for x in _MANY_VALUED):
        w *= 4
    return w * max(1, int(job.get("depth", 1)))


def run_property(mod, tier, nproc=None):
    t0 = time.time()
    jobs = mod.jobs(tier)
    nproc = nproc or int(os.environ.get("VERIF_JOBS", "0") or 0) or min(16, os.cpu_count() or 1)
    results = []
    if nproc <= 1:
        for job in jobs:
            results.append(_isolated((mod.__name__, job)))
    else:
        # one freshly forked process per job: state the library keeps between calls (caches, class attributes)
        # cannot leak from one job into the next, so every job - and its replay - is deterministic on its own
        ctxm = multiprocessing.get_context("fork")
        # longest-looking jobs first (scheduling only; every job runs): an explicit job["weight"], else a guess from the shape
        order = sorted(range(len(jobs)), key=lambda i: (-_weight(jobs[i]), i))
        with ctxm.Pool(min(nproc, len(jobs)), maxtasksperchild=1) as pool:
            for res in pool.imap_unordered(_run_one, [(mod.__name__, jobs[i]) for i in order], chunksize=1):
                results.append(res)
    results.sort(key=lambda r: r["job"])
    errors = [r["harness_error"] for r in results if r.get("harness_error")]
    if errors:
        sys.stdout.write("HARNESS-ERROR property=%s\n%s\n" % (mod.PROP, errors[0]))
        return 2

    # merge
    agg = collections.Counter()
    outcomes = collections.Counter()
    extra = collections.Counter()
    samples, caps = [], []
    viol = {}
    closed = True
    depth = 0
    for r in results:
        for k in ("evaluations", "states", "transitions", "traces", "nontrivial", "skipped"):
            agg[k] += r[k]
        outcomes.update(r["outcomes"])
        extra.update(r["extra"])
        if len(samples) < 6:
            samples.extend(r["samples"][: max(1, 6 - len(samples))])
        caps.extend(r["caps"])
        if r["closed"] is False:
            closed = False
        depth = max(depth, r["depth"])
        for v in r["violations"]:
            old = viol.get(v["fp"])
            if old is None or (v["size"], json.dumps(v["case"], sort_keys=True, default=repr)) < (
                old["size"], json.dumps(old["case"], sort_keys=True, default=repr)):
                viol[v["fp"]] = v

    known = load_known()
    reported, matched = [], []
    for fp in sorted(viol):
        v = viol[fp]
        what = match_known(known, mod.PROP, fp)
        if what is not None:
            matched.append((fp, what))
        else:
            reported.append(v)

    # replay discipline: a violation is only reported if it reproduces identically twice
    out_dir = os.path.join(VERIF, "out", "replays", mod.PROP)
    lines = []
    byname = {j.get("name", ""): j for j in jobs}
    for v in reported[:MAX_REPORT]:
        whole = False
        for attempt in range(2):
            rr = run_case(mod, v["case"]) if not whole else _isolated((mod.__name__, byname[v["origin"]]))
            if rr.get("harness_error"):
                sys.stdout.write("HARNESS-ERROR property=%s replaying %s\n%s\n" % (mod.PROP, v["fp"], rr["harness_error"]))
                return 2
            if v["fp"] not in [x["fp"] for x in rr["violations"]]:
                if not whole and attempt == 0 and v.get("origin") in byname:
                    # the case alone does not fail: the violation may depend on earlier cases of its job (state the
                    # library keeps between calls). Replay the whole job, twice; it is deterministic.
                    whole = True
                    r1 = _isolated((mod.__name__, byname[v["origin"]]))
                    if v["fp"] in [x["fp"] for x in r1["violations"]]:
                        continue
                sys.stdout.write("HARNESS-NONDETERMINISM property=%s fp=%s did not reproduce on replay %d\n"
                                 % (mod.PROP, v["fp"], attempt + 1))
                return 2
        if whole:
            v["case"] = {"whole_job": byname[v["origin"]], "job": v["origin"]}
            v["msg"] += "  [needs the preceding cases of job %s: the library keeps state between calls]" % v["origin"]
        os.makedirs(out_dir, exist_ok=True)
        name = hashlib.sha1(v["fp"].encode()).hexdigest()[:12] + ".json"
        path = os.path.join(out_dir, name)
        with open(path, "w", encoding="utf-8") as fh:
            json.dump({"property": mod.PROP, "fp": v["fp"], "msg": v["msg"], "case": v["case"]}, fh,
                      indent=1, sort_keys=True, default=repr)
        lines.append("VIOLATION property=%s replay=%s" % (mod.PROP, path))
        sys.stdout.write("  fp=%s\n  %s\n" % (v["fp"], v["msg"]))

    if len(reported) > MAX_REPORT:
        sys.stdout.write("  ... %d further distinct violation fingerprints not written out\n" % (len(reported) - MAX_REPORT))
    for what in sorted(set(w for _, w in matched)):
        sys.stdout.write("KNOWN-FINDING: property=%s %s\n" % (mod.PROP, what))
    for line in lines:
        sys.stdout.write(line + "\n")

    wall = time.time() - t0
    vacuous = len(outcomes) < 2
    cov = {
        "evaluations": agg["evaluations"],
        "distinct_nontrivial": agg["nontrivial"],
        "rule": getattr(mod, "RULE", ""),
        "samples": samples[:6] or [{"note": "no sample recorded"}],
        "states": max(agg["states"], 1) if agg["states"] or agg["transitions"] else agg["states"],
        "transitions": agg["transitions"],
        "traces_validated_against_impl": agg["traces"],
        "exhaustive": not caps,
        "closed": closed if agg["states"] else None,
        "depth_completed": depth,
        "caps_hit": caps[:20],
        "distinct_outcomes": dict(outcomes),
        "skipped_out_of_domain": agg["skipped"],
        "known_findings_matched": [fp for fp, _ in matched],
        "jobs": len(jobs),
        "bounds": mod.bounds(tier) if hasattr(mod, "bounds") else {},
        "extra": dict(extra),
        "repo": REPO,
    }
    if not cov["states"]:
        cov.pop("states"); cov.pop("transitions"); cov.pop("traces_validated_against_impl")
    ev = {
        "property_id": mod.PROP,
        "tier": tier,
        "seed": SEED,
        "level": getattr(mod, "LEVEL", "model_checking"),
        "coverage": cov,
        "assumptions": getattr(mod, "ASSUMPTIONS", []),
        "wall_s": round(wall, 3),
        "violations": len(reported),
    }
    os.makedirs(os.path.join(VERIF, "evidence"), exist_ok=True)
    evpath = os.path.join(os.environ.get("VERIF_EVIDENCE_DIR") or os.path.join(VERIF, "evidence"), mod.PROP + ".json")
    os.makedirs(os.path.dirname(evpath), exist_ok=True)
    with open(evpath, "w", encoding="utf-8") as fh:
        json.dump(ev, fh, indent=1, sort_keys=True, default=repr)
    sys.stdout.write(
        "%s tier=%s seed=%d jobs=%d evaluations=%d distinct_nontrivial=%d states=%d transitions=%d "
        "outcomes=%d known=%d violations=%d wall=%.1fs\n"
        % (mod.PROP, tier, SEED, len(jobs), agg["evaluations"], agg["nontrivial"], agg["states"],
           agg["transitions"], len(outcomes), len(matched), len(reported), wall))
    if vacuous:
        sys.stdout.write("HARNESS-ERROR property=%s vacuous exploration: a single outcome class %r\n"
                         % (mod.PROP, dict(outcomes)))
        return 2
    return 1 if reported else 0


def replay_file(mod, path):
    data = json.load(open(path, encoding="utf-8"))
    rr = run_case(mod, data["case"])
    if rr.get("harness_error"):
        sys.stdout.write("HARNESS-ERROR %s\n" % rr["harness_error"])
        return 2
    hit = [v for v in rr["violations"] if v["fp"] == data["fp"]]
    for v in rr["violations"]:
        sys.stdout.write("  fp=%s\n  %s\n" % (v["fp"], v["msg"]))
    if hit:
        sys.stdout.write("VIOLATION property=%s replay=%s\n" % (mod.PROP, os.path.abspath(path)))
        return 1
    sys.stdout.write("replay of %s: violation not reproduced on this tree\n" % path)
    return 0


# --------------------------------------------------------------------------------------------
# file-access monitor (audit hook: covers open(), io.open, os.open, pathlib)
# --------------------------------------------------------------------------------------------
_AUDIT = {"on": False, "log": [], "installed": False}


def _audit_hook(event, args):
    if event == "open" and _AUDIT["on"]:
        try:
            path, mode, flags = args[0], args[1], args[2]
            if isinstance(path, (str, bytes, os.PathLike)):
                p = os.path.abspath(os.fsdecode(path))
                write = bool(flags & (os.O_WRONLY | os.O_RDWR | os.O_CREAT | os.O_TRUNC | os.O_APPEND)) if isinstance(flags, int) else \
                    any(c in (mode or "") for c in "wax+")
                _AUDIT["log"].append((p, "w" if write else "r"))
        except Exception:  # noqa
            pass


class audit_opens:
    """with audit_opens() as log: ...   -> log is a list of (absolute path, 'r'|'w')"""

    def __enter__(self):
        if not _AUDIT["installed"]:
            sys.addaudithook(_audit_hook)
            _AUDIT["installed"] = True
        _AUDIT["log"] = []
        _AUDIT["on"] = True
        return _AUDIT["log"]

    def __exit__(self, *a):
        _AUDIT["on"] = False
        return False
