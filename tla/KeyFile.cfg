CONSTANTS
  MaxDepth = 2
  MaxGen = 2
INIT Init
NEXT Next
INVARIANTS NoRetention OnlyValidKeys NestedShareKey FileNeverDamaged
