---------------------------- MODULE KeyFile ----------------------------
(* Secondary model for C07: the life cycle of a key file shared by two KeyFile objects.      *)
(* `last` is a history variable naming the action taken, so that every edge of the dumped    *)
(* state graph can be replayed against the implementation (tla/conform in mc/props/c07_tla). *)
EXTENDS Naturals, Sequences

CONSTANTS MaxDepth, MaxGen

Objs == {1, 2}
Valid == {"A", "B", "G1", "G2"}
Bad == {"bad0", "bad10", "bad33"}
FileVals == {"absent"} \cup Valid \cup Bad

VARIABLES file, depth, key, gen, last

vars == <<file, depth, key, gen, last>>

Init == /\ file = "absent"
        /\ depth = [o \in Objs |-> 0]
        /\ key = [o \in Objs |-> "none"]
        /\ gen = 0
        /\ last = <<"Init", 0>>

GenName(n) == IF n = 1 THEN "G1" ELSE "G2"

EnterCached(o) == /\ depth[o] > 0 /\ depth[o] < MaxDepth
                  /\ depth' = [depth EXCEPT ![o] = @ + 1]
                  /\ UNCHANGED <<file, key, gen>>
                  /\ last' = <<"Enter", o>>

EnterLoad(o) == /\ depth[o] = 0 /\ file \in Valid
                /\ depth' = [depth EXCEPT ![o] = 1]
                /\ key' = [key EXCEPT ![o] = file]
                /\ UNCHANGED <<file, gen>>
                /\ last' = <<"Enter", o>>

EnterGenerate(o) == /\ depth[o] = 0 /\ file = "absent" /\ gen < MaxGen
                    /\ gen' = gen + 1
                    /\ file' = GenName(gen + 1)
                    /\ key' = [key EXCEPT ![o] = GenName(gen + 1)]
                    /\ depth' = [depth EXCEPT ![o] = 1]
                    /\ last' = <<"Enter", o>>

EnterReject(o) == /\ depth[o] = 0 /\ file \in Bad
                  /\ UNCHANGED <<file, depth, key, gen>>
                  /\ last' = <<"EnterFail", o>>

Exit(o) == /\ depth[o] > 0
           /\ depth' = [depth EXCEPT ![o] = @ - 1]
           /\ key' = IF depth[o] = 1 THEN [key EXCEPT ![o] = "none"] ELSE key
           /\ UNCHANGED <<file, gen>>
           /\ last' = <<"Exit", o>>

New(o) == /\ depth[o] = 0
          /\ UNCHANGED <<file, depth, key, gen>>
          /\ last' = <<"New", o>>

SetFile(x) == /\ x # file
              /\ x \in {"absent", "A", "B"} \cup Bad
              /\ file' = x
              /\ UNCHANGED <<depth, key, gen>>
              /\ last' = <<x, 0>>

Next == \/ \E o \in Objs : EnterCached(o) \/ EnterLoad(o) \/ EnterGenerate(o) \/ EnterReject(o) \/ Exit(o) \/ New(o)
        \/ \E x \in FileVals : SetFile(x)

Spec == Init /\ [][Next]_vars

NoRetention == \A o \in Objs : depth[o] = 0 => key[o] = "none"
OnlyValidKeys == \A o \in Objs : key[o] \in Valid \cup {"none"}
NestedShareKey == \A o \in Objs : depth[o] > 0 => key[o] \in Valid
FileNeverDamaged == file \in FileVals
=========================================================================
