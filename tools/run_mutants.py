#!/venv/bin/python -B
"""Runs every mutants/*.patch through tools/mutant.py against its owning check(s) and writes mutants/RESULTS.md.
Not part of any registered command."""
import glob, os, re, subprocess, sys, time
HERE = os.path.dirname(os.path.dirname(os.path.abspath(__file__)))
seeds = os.environ.get("MUT_SEEDS", "0,1")
only = [a for a in sys.argv[1:] if not a.startswith("-j")]
JOBS = int(([a[2:] for a in sys.argv[1:] if a.startswith("-j")] or ["1"])[0])
def one(path):
    name = os.path.basename(path) if path.endswith(".patch") else os.path.basename(os.path.dirname(path)) + "/patch.diff"
    if only and not any(o in name for o in only):
        return None
    head = open(path).read(400)
    m = re.search(r"# property: ([C0-9, ]+)", head)
    if m:
        props = [p.strip() for p in m.group(1).split(",")]
    else:
        meta = os.path.join(os.path.dirname(path), "meta.json")
        import json
        props = [json.load(open(meta))["property"]] if os.path.exists(meta) else [re.search(r"(c\d+)", name).group(1).upper()]
    t0 = time.time()
    r = subprocess.run([os.path.join(HERE, "tools", "mutant.py"), path] + props + ["--seeds", seeds], capture_output=True, text=True)
    out = r.stdout
    suite = re.search(r"suite: (.*)", out)
    status = []
    for p in props:
        st = set(re.findall(r" %s seed=\S+ (DETECTED|MISSED|ERROR[^ ]*)" % p, out))
        status.append("%s:%s" % (p, "/".join(sorted(st)) or ("PATCH-FAILED" if "PATCH-FAILED" in out else ("SUITE-CATCHES" if "SUITE-CATCHES" in out else "?"))))
    metap = os.path.join(os.path.dirname(path), "meta.json")
    if os.path.exists(metap) and str(__import__("json").load(open(metap)).get("detected_by", "")).startswith("not detected, deliberately"):
        status = [x.replace("MISSED", "NOT-JUDGED (see meta.json)") for x in status]
    eg = re.search(r"e\.g\. \['([^']*)'", out)
    row = (name, suite.group(1)[:24] if suite else "-", " ".join(status), eg.group(1) if eg else "", round(time.time() - t0))
    print(row, flush=True)
    return row


from concurrent.futures import ThreadPoolExecutor
with ThreadPoolExecutor(JOBS) as ex:
    rows = [r for r in ex.map(one, sorted(glob.glob(os.path.join(HERE, "mutants", "*.patch")) + glob.glob(os.path.join(HERE, "seeded", "*", "patch.diff")))) if r is not None]
if only:
    # partial run: merge the new rows into the rows of the last full run
    old = {}
    for line in open(os.path.join(HERE, "mutants", "RESULTS.md")):
        m = re.match(r"\| (\S+) \| (.*?) \| (.*?) \| `(.*)` \| (\d+) \|$", line.strip())
        if m:
            old[m.group(1)] = (m.group(1), m.group(2), m.group(3), m.group(4), int(m.group(5)))
    old.update({r[0]: r for r in rows})
    rows = [old[k] for k in sorted(old, key=lambda n: (not n.endswith(".patch"), n))]
with open(os.path.join(HERE, "mutants", "RESULTS.md"), "w") as fh:
    fh.write("# Mutant / seeded-change detection results (seeds %s, quick tier)\n\n" % seeds)
    fh.write("Produced by `tools/run_mutants.py` on repo commit %s.\n\n" % subprocess.run(["git", "-C", "/repo", "log", "--format=%h", "-1"], capture_output=True, text=True).stdout.strip())
    fh.write("| change | repository suite | result per owning check | first fingerprint | s |\n|---|---|---|---|---|\n")
    for r in rows:
        fh.write("| %s | %s | %s | `%s` | %d |\n" % r)
    det = sum(1 for r in rows if "DETECTED" in r[2] and "MISSED" not in r[2])
    nj = sum(1 for r in rows if "NOT-JUDGED" in r[2])
    fh.write("\n%d of %d changes detected on every seed by every owning check; %d deliberately not judged.\n" % (det, len(rows), nj))
