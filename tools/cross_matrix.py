#!/venv/bin/python -B
"""Every seeded change against every check (not only the owning one): looks for harness crashes (exit 2) on changed
trees and records which other properties a change also breaks.  Writes mutants/CROSS.md.  Not a registered command."""
import glob, json, os, re, subprocess, sys, time, shutil, tempfile
HERE = os.path.dirname(os.path.dirname(os.path.abspath(__file__)))
PROPS = ["C%02d" % i for i in range(1, 21)]
only = [a for a in sys.argv[1:] if not a.startswith("-j")]
JOBS = int(([a[2:] for a in sys.argv[1:] if a.startswith("-j")] or ["1"])[0])


def one(path):
    sid = os.path.basename(os.path.dirname(path))
    if only and not any(sid.endswith(o) or o in sid for o in only):
        return None
    owner = json.load(open(os.path.join(os.path.dirname(path), "meta.json")))["property"]
    tmp = tempfile.mkdtemp(prefix="cccross-", dir="/dev/shm")
    copy = os.path.join(tmp, "repo")
    shutil.copytree("/repo", copy, ignore=shutil.ignore_patterns(".git", "__pycache__", "docs"))
    r = subprocess.run(["patch", "-p1", "-s", "--no-backup-if-mismatch", "-i", path], cwd=copy, capture_output=True, text=True)
    res = {}
    if r.returncode == 0:
        for p in PROPS:
            env = dict(os.environ, VERIF_REPO=copy, VERIF_EVIDENCE_DIR=os.path.join(tmp, "ev"))
            q = subprocess.run([os.path.join(HERE, "check"), p, "--tier", "quick"], cwd=HERE, env=env, capture_output=True, text=True)
            res[p] = {0: ".", 1: "V", 2: "E"}.get(q.returncode, "?")
            if q.returncode == 2:
                err = [l for l in q.stdout.splitlines() if "HARNESS" in l][:1] + q.stdout.strip().splitlines()[-3:]
                print("ERROR", sid, p, " | ".join(err)[:400], flush=True)
    shutil.rmtree(tmp, ignore_errors=True)
    print(sid, owner, "".join(res.get(p, "-") for p in PROPS), flush=True)
    return (sid, owner, res)


from concurrent.futures import ThreadPoolExecutor
with ThreadPoolExecutor(JOBS) as ex:
    rows = [r for r in ex.map(one, sorted(glob.glob(os.path.join(HERE, "seeded", "*", "patch.diff")))) if r is not None]
with open(os.path.join(HERE, "mutants", "CROSS.md"), "w") as fh:
    fh.write("# Every seeded change against every quick check\n\n`V` = VIOLATION (exit 1), `.` = silent (exit 0), `E` = harness error (exit 2). Columns C01..C20; the owning property is named.\n\n```\n")
    fh.write("%-10s %-5s %s\n" % ("change", "owner", " ".join(p[1:] for p in PROPS)))
    for sid, owner, res in rows:
        fh.write("%-10s %-5s %s\n" % (sid, owner, "  ".join(res.get(p, "-") for p in PROPS)))
    fh.write("```\n")
