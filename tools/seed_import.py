#!/venv/bin/python -B
"""tools/seed_import.py <out-dir> <seed-id> <PROP> [extra PROP ...]
Confirms an independently written property-breaking change (patch.diff + demo.py + notes.md) on a scratch copy of
/repo: the patch applies, the repository suite still passes, the demo fails with the change and passes without it.
On success stores it as /verif/seeded/<seed-id>/{patch.diff,demo.py,notes.md,meta.json}."""
import json, os, shutil, subprocess, sys, tempfile
HERE = os.path.dirname(os.path.dirname(os.path.abspath(__file__)))
src, sid, props = sys.argv[1], sys.argv[2], sys.argv[3:]
tmp = tempfile.mkdtemp(prefix="ccseed-", dir="/dev/shm")
copy = os.path.join(tmp, "repo")
ran = []
try:
    shutil.copytree("/repo", copy, ignore=shutil.ignore_patterns(".git", "__pycache__", "docs"))
    env = dict(os.environ, HOME=tmp, PYTHONPATH=copy, PYTHONDONTWRITEBYTECODE="1")
    def demo():
        r = subprocess.run(["/venv/bin/python", "-B", os.path.join(os.path.abspath(src), "demo.py")], cwd=copy, env=env, capture_output=True, text=True, timeout=600)
        return r.returncode, (r.stdout + r.stderr)[-400:]
    rc0, out0 = demo(); ran.append("demo on unchanged copy: exit %d" % rc0)
    r = subprocess.run(["patch", "-p1", "-s", "--no-backup-if-mismatch", "-i", os.path.join(os.path.abspath(src), "patch.diff")], cwd=copy, capture_output=True, text=True)
    ran.append("patch applies: %s" % (r.returncode == 0))
    if r.returncode != 0:
        print("REJECTED: patch does not apply", r.stdout[-300:]); sys.exit(3)
    s = subprocess.run(["/venv/bin/python", "-B", "-m", "pytest", "-q", "-p", "no:cacheprovider", "--deselect", "tests/test_schema.py::TestSchema::test_setattr_field"],
                       cwd=copy, env=dict(env, PYTHONPATH=""), capture_output=True, text=True)
    tail = s.stdout.strip().splitlines()[-1]
    ran.append("repository suite with the change: %s" % tail)
    rc1, out1 = demo(); ran.append("demo on changed copy: exit %d" % rc1)
    ok = rc0 == 0 and rc1 != 0 and "477 passed" in tail
    print("\n".join(ran))
    if not ok:
        print("REJECTED", out0 if rc0 else "", out1 if not rc1 else ""); sys.exit(4)
    dst = os.path.join(HERE, "seeded", sid)
    os.makedirs(dst, exist_ok=True)
    for f in ("patch.diff", "demo.py", "notes.md"):
        shutil.copy(os.path.join(src, f), dst)
    notes = open(os.path.join(src, "notes.md")).read()
    meta = {"property": props[0], "also": props[1:], "origin": "independent sub-agent given only the property text and a scratch worktree",
            "needs_to_manifest": "see notes.md", "confirmed": ran}
    json.dump(meta, open(os.path.join(dst, "meta.json"), "w"), indent=1)
    print("ACCEPTED ->", dst)
finally:
    shutil.rmtree(tmp, ignore_errors=True)
