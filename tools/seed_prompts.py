#!/venv/bin/python -B
"""Prepare one wave of independent seeding: tools/seed_prompts.py <wave-dir>
Creates, per property, a scratch git worktree of /repo under <wave-dir>/wt-<ID> and a self-contained prompt
<wave-dir>/prompt-<ID>.txt holding only the property's text plus the list of what earlier changes need in order to
manifest (so that new changes use other mechanisms).  Nothing from /verif's checks is disclosed."""
import json, os, subprocess, sys
HERE = os.path.dirname(os.path.dirname(os.path.abspath(__file__)))
wave = os.path.abspath(sys.argv[1])
os.makedirs(wave, exist_ok=True)
needs = {}
for d in sorted(os.listdir(os.path.join(HERE, "seeded"))):
    mp = os.path.join(HERE, "seeded", d, "meta.json")
    if os.path.exists(mp):
        m = json.load(open(mp))
        needs.setdefault(m["property"], []).append(m["needs_to_manifest"])
tmpl = open(os.path.join(HERE, "tools", "seed_prompt.tmpl")).read().replace("@DIR@", wave)
for line in open(os.path.join(HERE, "properties.jsonl")):
    p = json.loads(line)
    pid = p["id"]
    wt = os.path.join(wave, "wt-" + pid)
    if not os.path.exists(wt):
        subprocess.check_call(["git", "-C", "/repo", "worktree", "add", "-q", "--detach", wt, "HEAD"])
    text = "%s - %s\n\n%s\n\nQuantifier: %s" % (pid, p["title"], p["statement"], p["quantifier"]["text"])
    extra = ("\n\nIMPORTANT: many changes for this property already exist; yours must use DIFFERENT mechanisms and code sites. The existing ones manifest through: "
             + "; ".join("(%d) %s" % (i + 1, n) for i, n in enumerate(needs.get(pid, [])))
             + ". Do not re-create those. Think about what a verification suite built from the property text alone would most likely NOT exercise: rarely used "
               "constructor options and option combinations, unusual but legal keys and values, field classes or formats that are easy to forget, positions deep "
               "inside containers, sequences of three or more steps, behaviour that depends on what happened earlier in the process or on another object, "
               "interactions with other features of the library (environment variables, includes, feature flags, dynamic schemas, validators, key files, "
               "command-line overrides, stubs), and code paths shared with other features.\n")
    open(os.path.join(wave, "prompt-%s.txt" % pid), "w").write(tmpl.replace("@ID@", pid).replace("@TEXT@", text + extra))
print("prepared", wave)
