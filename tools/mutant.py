#!/venv/bin/python -B
"""tools/mutant.py <patch> [PROP ...] [--tier quick] [--no-suite] [--seeds 0,1]
Apply a patch to a scratch copy of /repo (outside /repo and /verif), run the repository's own suite there
(a mutant the suite catches is unrealistic), run the owning check(s) against the copy, and report.
Exit 0 iff suite still green AND every listed check reports a VIOLATION (exit 1) on every seed."""
import argparse, os, re, shutil, subprocess, sys, tempfile
HERE = os.path.dirname(os.path.dirname(os.path.abspath(__file__)))

def main():
    ap = argparse.ArgumentParser()
    ap.add_argument("patch"); ap.add_argument("props", nargs="*")
    ap.add_argument("--tier", default="quick"); ap.add_argument("--no-suite", action="store_true")
    ap.add_argument("--seeds", default="0"); ap.add_argument("--keep", action="store_true")
    a = ap.parse_args()
    props = a.props or [re.match(r"(c\d+)", os.path.basename(a.patch)).group(1).upper()]
    base = "/dev/shm" if os.path.isdir("/dev/shm") else None
    tmp = tempfile.mkdtemp(prefix="ccmut-", dir=base)
    copy = os.path.join(tmp, "repo")
    try:
        subprocess.check_call(["git", "-C", "/repo", "worktree", "prune"])
        shutil.copytree("/repo", copy, ignore=shutil.ignore_patterns(".git", "__pycache__", "docs", "*.pyc"))
        r = subprocess.run(["patch", "-p1", "-s", "--no-backup-if-mismatch", "-i", os.path.abspath(a.patch)], cwd=copy, capture_output=True, text=True)
        if r.returncode != 0:
            print("PATCH-FAILED", a.patch, r.stdout[-500:], r.stderr[-300:]); return 3
        ok = True
        if not a.no_suite:
            env = dict(os.environ, PYTHONDONTWRITEBYTECODE="1", HOME=tmp)
            r = subprocess.run(["/venv/bin/python", "-B", "-m", "pytest", "-q", "-p", "no:cacheprovider", "-x", "--deselect",
                                "tests/test_schema.py::TestSchema::test_setattr_field"], cwd=copy, env=env, capture_output=True, text=True)
            tail = r.stdout.strip().splitlines()[-1] if r.stdout.strip() else r.stderr[-200:]
            print("suite:", tail)
            if r.returncode != 0:
                print("SUITE-CATCHES-MUTANT", a.patch); return 4
        for prop in props:
            for seed in a.seeds.split(","):
                env = dict(os.environ, VERIF_REPO=copy, VERIF_SEED=seed, VERIF_EVIDENCE_DIR=os.path.join(tmp, "ev"))
                r = subprocess.run([os.path.join(HERE, "check"), prop, "--tier", a.tier], cwd=HERE, env=env, capture_output=True, text=True)
                viol = [l for l in r.stdout.splitlines() if l.startswith("VIOLATION")]
                fps = [l.strip() for l in r.stdout.splitlines() if l.strip().startswith("fp=")]
                status = "DETECTED" if (r.returncode == 1 and viol) else ("MISSED" if r.returncode == 0 else "ERROR rc=%d" % r.returncode)
                print("%s %s seed=%s %s  violations=%d  e.g. %s" % (os.path.basename(a.patch), prop, seed, status, len(viol), fps[:2]))
                if r.returncode not in (0, 1):
                    print(r.stdout[-1500:], r.stderr[-500:])
                if status != "DETECTED":
                    ok = False
        return 0 if ok else 1
    finally:
        if not a.keep:
            shutil.rmtree(tmp, ignore_errors=True)
sys.exit(main())
