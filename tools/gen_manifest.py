#!/venv/bin/python -B
"""Regenerates MANIFEST.json from the table below; a property is claimed iff mc/props/<id>.py exists."""
import json, os
HERE = os.path.dirname(os.path.dirname(os.path.abspath(__file__)))
TRUST = ("CPython 3.12 and its list/dict/json/pickle/xml/hashlib; PyYAML, bson, cryptography as codecs; "
         "the reference models under mc/ref and in each property module; alphabets and bounds as recorded in the evidence file")
P = {
 "C01": ("model_checking", "explicit-state BFS over operation histories on real configurations, lock-step with a reference validator/normaliser",
         "Every state reachable by the bounded operation alphabet (all routes x valid/boundary/invalid values) on every schema shape is walked through the public readers and each value checked against an independent reference of the field's constraints.", "3 C01"),
 "C02": ("model_checking", "explicit-state BFS over configuration states x exhaustive format round trips", "Every valid state reached by the bounded BFS is dumped and re-loaded in each format into a fresh configuration (twice) and compared type-exactly.", "3 C02"),
 "C03": ("model_checking", "explicit-state BFS over key-file placement x secret histories with an independent cipher and a file-access monitor", "All key-file placements x operation histories up to the depth bound; ciphertext decrypted with the reference cipher under the designated key only; audit hook proves no other key file is touched.", "3 C03"),
 "C04": ("model_checking", "exhaustive enumeration of all plain-data trees up to a size bound through every format/option row", "All trees with at most n nodes over the type-confusion alphabet are encoded and decoded by every format with every option and compared type-exactly.", "3 C04"),
 "C05": ("model_checking", "exhaustive product of field parameterisations x value alphabet against an independent reference validator, with validate/encode chains", "Full product of option alphabets x candidate values for every built-in field class; outcome, normal form, idempotence and to_basic/to_python inversion compared with a hand-written reference.", "3 C05"),
 "C06": ("model_checking", "explicit-state BFS with whole-state snapshots around every failing operation; every proper prefix of documents", "For every reachable state and every rejected operation of the listed kinds the complete observable state (values, marks, identities) is compared before/after; every truncation of a document in every format.", "3 C06"),
 "C07": ("model_checking", "explicit-state BFS to closure over key-file life-cycle histories in lock-step with a reference machine; TLC state graph replayed edge by edge on KeyFile", "All histories of enter/exit/encrypt/decrypt/new object/external file change over 2-3 objects close under canonical state; each transition runs the real KeyFile against real files.", "3 C07"),
 "C08": ("model_checking", "exhaustive enumeration of keys x every plaintext length x methods, every prefix/extension of ciphertexts, against an independent AES-256-CBC/PKCS7 and XOR", "Every plaintext length 0..80 x key alphabet x method is encrypted by the library and decrypted by an independent pure-Python AES (and vice versa); all malformed shapes enumerated.", "3 C08"),
 "C09": ("model_checking", "exhaustive enumeration of algorithms x secret pairs x routes x formats with hashlib recomputation; BFS over assign/save/load/reset", "All six algorithms x all ordered pairs of the secret alphabet x every assignment route; digests recomputed independently, salts compared for freshness, outputs scanned for plaintext.", "3 C09"),
 "C10": ("model_checking", "exhaustive enumeration of sensitive-field placements x values x masks x renderers against a reference masker", "Every placement (root, nested, config type, list items) x value x mask is rendered as tree and document and compared with a reference mask applied to the unmasked rendering.", "3 C10"),
 "C11": ("model_checking", "exhaustive enumeration of trees (absent/None/empty/valid per leaf) x prior states against a reference requirement evaluator with validator invocation logs", "4^k trees per schema shape x prior state x route; returns-iff-no-violated-requirement and every enabled validator ran, decided by a reference evaluator.", "3 C11"),
 "C12": ("model_checking", "explicit-state BFS to closure over set/failed set/load/reset histories, lock-step with a reference default/mark machine", "The state space of (value, user-defined mark) per field closes under the operation alphabet; every transition compared with the reference state machine.", "3 C12"),
 "C13": ("model_checking", "explicit-state BFS over histories on one configuration with snapshots of a sibling configuration, a later-built one and the schema", "For every history up to the bound on configuration A, the sibling B0, a freshly built B1 and a deep snapshot of the schema are compared against pristine ones.", "3 C13"),
 "C14": ("model_checking", "exhaustive product of schema/field env settings x depth x environment x histories against a reference name resolver and precedence model", "Full matrix of schema-level x field-level settings x positions x variable states x load/assign histories on real os.environ.", "3 C14"),
 "C15": ("model_checking", "exhaustive enumeration of leaf paths x rejected values x routes with a reference path oracle", "Every declared leaf path x every rejected value x every route; exception class and reference path compared.", "3 C15"),
 "C16": ("model_checking", "exhaustive enumeration of schema trees up to depth 3 / width 2-3 x every subset of generated options x every ignore list", "All schema trees in the bound; all naming routes compared; every subset of options parsed by the real generated parser and applied.", "3 C16"),
 "C17": ("model_checking", "explicit-state search over all content states x every list/dict operation and argument shape, lock-step with built-in list/dict", "All content states up to the length bound x every operation named in the statement x every argument shape on the real proxies, compared with the built-in container fed normalised arguments.", "3 C17"),
 "C18": ("model_checking", "exhaustive enumeration of tree pairs for the merge law; exhaustive main/included document pairs through real files for the load equivalence", "All ordered pairs of trees up to the node bound through combine_trees against a reference merge with purity check; all 3^k x 3^k document pairs through real include files.", "3 C18"),
 "C19": ("fault_enumeration", "fault injection at every step of the serialisation pipeline with a pre-existing destination, plus natural faults", "A fault-free run numbers the steps save() goes through; one execution per (step, exception class) with the destination pre-filled; destination bytes/inode and write-opens checked.", "3 C19"),
 "C20": ("model_checking", "exhaustive enumeration of field-kind subsets x instance-method signature shapes, stubs parsed with ast and compared with inspect.signature", "Every signature shape in the bound x every field-kind subset through generate_stub for Schema/Config/ConfigType; ast-level oracle.", "3 C20"),
}
def main():
    checks, na = [], []
    for pid in sorted(P):
        cat, tech, text, ref = P[pid]
        if os.path.exists(os.path.join(HERE, "mc", "props", pid.lower() + ".py")):
            checks.append({
                "property_id": pid,
                "quick_cmd": "./check %s --tier quick" % pid,
                "thorough_cmd": "./check %s --tier thorough" % pid,
                "evidence_file": "/verif/evidence/%s.json" % pid,
                "replay_cmd_template": "./check %s --replay {path}" % pid,
                "engine": "mc",
                "level_claimed": {"category": cat, "text": text, "design_ref": "DESIGN.md section " + ref},
                "level_note": TRUST,
                "technique": tech,
            })
        else:
            na.append({"property_id": pid, "reason": "check not built yet (work in progress; see DESIGN.md section 8)"})
    m = {
        "version": 1,
        "setup_cmd": "./check selftest",
        "hooks": {
            "guard": "CINCOCONFIG_VERIF",
            "enable": "no hooks: every observation goes through the public API and harness-side seams; the guard variable guards nothing",
            "baseline_off_cmd": "cd /repo && /venv/bin/python -m pytest -ra -q -p no:cacheprovider --timeout=900 --continue-on-collection-errors",
            "source_commits": [],
            "add_only": True,
        },
        "engines": [{"name": "mc", "path": "/verif/mc", "serves_properties": [c["property_id"] for c in checks],
                     "kind_free_text": "hand-written explicit-state / bounded-exhaustive explorer over the real Python code with reference models (no sampling); TLC for the C07 secondary model"}],
        "checks": checks,
        "not_applicable": na,
        "notes": "exit 0 = held on everything explored; exit 1 + VIOLATION line; exit 2 = harness error. VERIF_SEED keys the entropy seam only.",
    }
    with open(os.path.join(HERE, "MANIFEST.json"), "w") as fh:
        json.dump(m, fh, indent=1)
    print("claimed:", [c["property_id"] for c in checks])
main()
